#!/bin/bash
# Offline setup: syntax-check the specs and warm the Go build cache. Every check rebuilds the
# harness against /repo's current working tree by itself.
set -e
cd "$(dirname "$0")"
export GOFLAGS=-mod=mod GOPROXY=off GOSUMDB=off GOTOOLCHAIN=local CGO_ENABLED=0
mkdir -p .work/setup && cp spec/*.tla .work/setup/
( cd .work/setup && for f in *.tla; do tla-sany "$f" > sany.out 2>&1 || { cat sany.out; echo "SANY failed on $f"; exit 1; }; done )
cp /repo/go.sum harness/go.sum
( cd harness && go1.26 test -tags verif -c -o ../.work/setup/harness.test . )
rm -rf .work/setup
echo setup ok
