package harness

import (
	"math/rand"
	"fmt"
	"testing"
	"time"
)

func TestProbeUpgDeadline(t *testing.T) {
	out := OpenOut("probe")
	defer out.Close("probe")
	RunScenario(t, out, 0, Scenario{Name: "probe", Run: func(t *testing.T, rec *Rec, g *Gates) {
		cfg := EngCfg{PI: 2 * time.Second, PT: time.Second}
		w := newEngWorld(t, rec, g, cfg)
		sc := &Script{w: w, cfg: cfg, W: map[string]int{}, r: rand.New(rand.NewSource(1))}
		s, _ := w.Handshake(4, false, false, ReqOpt{})
		c := &cliSess{S: s, Kind: "polling"}
		sc.ss = append(sc.ss, c)
		cand := w.DialWS(s, "", nil, nil)
		sc.settle()
		time.Sleep(1900 * time.Millisecond)
		cand.SendPkt(Pkt{Type: "ping", Data: []byte("probe")})
		sc.settle()
		sc.doPoll(c)
		sc.settle()
		time.Sleep(100 * time.Millisecond) // ping fires at 2s; goes out on the pending poll
		sc.settle()
		fmt.Println("poll status", c.poll == nil)
		cand.SendPkt(Pkt{Type: "upgrade"})
		sc.settle()
		so := w.Sock(s.Sid)
		fmt.Println("after upgrade:", so.ReadyState(), so.Transport().Name(), so.Upgraded())
		time.Sleep(10 * time.Second)
		sc.settle()
		fmt.Println("10s later (no pong ever):", so.ReadyState())
		time.Sleep(100 * time.Second)
		sc.settle()
		fmt.Println("110s later:", so.ReadyState())
		w.Finish()
	}}, 20*time.Second)
}
