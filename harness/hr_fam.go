package harness

import (
	"fmt"
	"net/http"
	"regexp"
	"strings"
	"testing"
	"testing/synctest"
	"time"

	"github.com/zishang520/engine.io-go-parser/packet"
	"github.com/zishang520/engine.io/v2/config"
	"github.com/zishang520/engine.io/v2/types"
)

// ---- family "hr" (C16, C17): one implementation test per cell of HttpResp.tla.

func aeHeader(ae string) http.Header {
	h := http.Header{}
	switch ae {
	case "gzip", "deflate", "br", "zstd", "identity":
		h.Set("Accept-Encoding", ae)
	case "several":
		h.Set("Accept-Encoding", "deflate, br")
	case "gzipq0":
		h.Set("Accept-Encoding", "gzip;q=0")
	case "mixedq":
		h.Set("Accept-Encoding", "br;q=1.0, gzip;q=0")
	case "gzipq00":
		h.Set("Accept-Encoding", "gzip;q=0.0")
	case "q000deflate":
		h.Set("Accept-Encoding", "gzip;q=0.000, deflate")
	case "gzipq0dot":
		h.Set("Accept-Encoding", "gzip;q=0.")
	case "gzipq0001":
		h.Set("Accept-Encoding", "gzip;q=0.001")
	case "ows":
		h.Set("Accept-Encoding", "gzip ; q=0")
	case "upper":
		h.Set("Accept-Encoding", "GZIP")
	case "starq0":
		h.Set("Accept-Encoding", "*;q=0, br;q=0.00")
	case "qempty":
		h.Set("Accept-Encoding", "gzip;q=")
	}
	return h
}

func strList(x any) []string {
	var out []string
	for _, v := range x.([]any) {
		out = append(out, v.(string))
	}
	return out
}

func chars(s string) []string {
	out := []string{}
	for _, r := range s {
		out = append(out, string(r))
	}
	return out
}

func hrRespCell(t *testing.T, rec *Rec, g *Gates, scn string, cell map[string]any) {
	rev := int(cell["rev"].(float64))
	b64, jsonp := cell["b64"].(bool), cell["jsonp"].(bool)
	ae, th, flag := cell["ae"].(string), cell["threshold"].(string), cell["flag"].(string)
	size, kind := int(cell["size"].(float64)), cell["kind"].(string)
	j := map[string]string{"seven": "7", "12ab": "12ab", "script": "</script>9", "empty": "", "inject": "1);alert(1", "neg1": "-1", "plus7": "+7",
		"zeros": "007", "float": "1.5", "hex": "0x10", "huge": "9999999999999999999999"}[cell["j"].(string)]
	so := &config.ServerOptions{}
	so.SetAllowEIO3(true)
	if th == "zero" {
		so.SetHttpCompression(&types.HttpCompression{Threshold: 0})
	}
	quiet := &Rec{start: rec.start}
	w := NewWorld(t, quiet, g, WorldOpts{Opts: so})
	if th == "off" {
		w.Srv.Opts().SetHttpCompression(nil)
	}
	var lastBatch []*packet.Packet
	w.Srv.On("flush", func(a ...any) { lastBatch = a[1].([]*packet.Packet) })
	s := &Sess{Proto: rev, B64: b64, JSONP: jsonp, J: j}
	r0 := w.StartReq("handshake", s, ReqOpt{})
	synctest.Wait()
	for _, p := range r0.Pkts {
		if p.Type == "open" {
			s.Sid = openSid(p.Data)
		}
	}
	obs := map[string]any{"status": 0, "decodeOk": false, "pkMatch": false, "intact": false, "clenOk": false, "binBody": false, "cenc": "", "codingOk": true,
		"jsonpOk": true, "jdigits": []string{}, "scriptSafe": true, "rawLen": 0, "hsJsonpOk": true}
	if s.Sid == "" {
		rec.Log("hr.cell", "scn", scn, "kind", "resp", "cell", cell, "obs", obs)
		w.quietEnd()
		return
	}
	// the batch: one message of the cell's kind and size with awkward characters, plus a small text one
	var o SendOpt
	switch flag {
	case "true":
		v := true
		o.Compress = &v
	case "false":
		v := false
		o.Compress = &v
	}
	o.Size, o.Bin, o.Class = size, kind == "binary", 3
	if rev == 3 && !b64 && !jsonp {
		o.Class = 0
	}
	w.Send(s.Sid, o)
	o2 := o
	o2.Size, o2.Bin, o2.Class = 6, false, 0
	w.Send(s.Sid, o2)
	lastBatch = nil
	tail, _ := cell["tail"].(string)
	if tail == "close" {
		// a graceful Close with the batch still buffered waits for the drain; the poll's flush hands the batch to the writer
		// goroutine (held at its first statement), the drain lets the Close go on: the transport is not writable, the orderly close
		// is buffered, and the writer appends the close packet to the batch it is about to write
		if so := w.Sock(s.Sid); so != nil {
			so.Close(false)
		}
		synctest.Wait()
		g.Park("polling.send.enter", true)
	}
	r := w.StartReq("poll", s, ReqOpt{Hdr: aeHeader(ae)})
	synctest.Wait()
	if tail == "close" {
		g.Park("polling.send.enter", false)
		g.ReleaseAll()
		synctest.Wait()
	}
	obs["status"] = r.Status
	if r.Status == 200 {
		_, info := w.decodePollBody(s, r.Hdr, r.Body)
		obs["decodeOk"], obs["clenOk"], obs["binBody"] = info["decodeOk"], info["clenOk"], info["binBody"]
		obs["cenc"], obs["codingOk"] = r.Hdr.Get("Content-Encoding"), info["codingOk"]
		obs["jsonpOk"], obs["scriptSafe"] = info["jsonpOk"], info["scriptSafe"]
		obs["jdigits"] = chars(info["jdigits"].(string))
		// decoded packets vs. the packets the server handed to the transport for this cycle
		want := lastBatch
		if tail == "close" {
			want = append(append([]*packet.Packet(nil), lastBatch...), &packet.Packet{Type: packet.CLOSE})
		}
		// (whether the transport's own close packet travels in this response or in the next one is the transport's business)
		if tail == "close" && len(r.Pkts) == len(lastBatch) {
			want = lastBatch
		}
		match := len(r.Pkts) == len(want)
		intact := true
		for i := 0; match && i < len(r.Pkts); i++ {
			if string(want[i].Type) != r.Pkts[i].Type {
				match = false
			}
			if r.Pkts[i].Type == "message" {
				_, ok := w.matchServerMsg(r.Pkts[i].Data)
				intact = intact && ok
			}
		}
		obs["pkMatch"], obs["intact"] = match, intact
		// size of the payload before content coding (what the threshold is compared with)
		raw := len(r.Body)
		if r.Hdr.Get("Content-Encoding") != "" {
			if rl, ok := info["rawLen"].(int); ok {
				raw = rl
			}
		}
		obs["rawLen"] = raw
	}
	rec.Log("hr.cell", "scn", scn, "kind", "resp", "cell", cell, "obs", obs)
	w.quietEnd()
}

var reCookie = regexp.MustCompile(`^([^=]+)=([^;]*)(.*)$`)

func hrCookieCell(t *testing.T, rec *Rec, g *Gates, scn string, cell map[string]any) {
	ck, transport, step := cell["cookie"].(string), cell["transport"].(string), cell["step"].(string)
	so := &config.ServerOptions{}
	switch ck {
	case "default":
		so.SetCookie(&http.Cookie{})
	case "custom":
		so.SetCookie(&http.Cookie{Name: "sess", Path: "/x", SameSite: http.SameSiteStrictMode, MaxAge: 3600})
	}
	quiet := &Rec{start: rec.start}
	w := NewWorld(t, quiet, g, WorldOpts{Opts: so})
	nInit, nHdr := 0, 0
	w.Srv.On("initial_headers", func(...any) { nInit++ })
	w.Srv.On("headers", func(...any) { nHdr++ })
	obs := map[string]any{"headersEvents": 0, "initialHeadersEvents": 0, "nSetCookie": 0, "cookieName": "", "cookieIsSid": false, "cookieAttrsOk": false, "status": 0}
	var hdr http.Header
	sid := ""
	if transport == "websocket" {
		s := &Sess{Proto: 4}
		c := w.DialWS(s, "", nil, nil)
		synctest.Wait()
		hdr = c.respHdr
		sid = s.Sid
		obs["status"] = 101
	} else {
		holdAt, _ := cell["hold"].(string)
		hold := holdAt != "" && holdAt != "none"
		if hold {
			g.Park(holdAt, true)
		}
		s, r := w.Handshake(4, false, false, ReqOpt{})
		if other, _ := cell["other"].(bool); hold && other {
			// another client's handshake is carried out from request to response while this one is held
			g.Park(holdAt, false)
			w.Handshake(4, false, false, ReqOpt{})
			synctest.Wait()
			nInit, nHdr = nInit-1, nHdr-1 // (its own two events are not this response's)
		}
		if hold {
			g.Park(holdAt, false)
			g.ReleaseAll()
			synctest.Wait()
			for _, p := range r.Pkts {
				if p.Type == "open" {
					s.Sid = openSid(p.Data)
				}
			}
		}
		hdr, sid = r.Hdr, s.Sid
		obs["status"] = r.Status
		if step == "postclose" || step == "pollclose" {
			pend := w.Poll(s)
			synctest.Wait()
			nInit, nHdr = 0, 0
			// count the events per response: the listener sees the request they belong to
			perReq := map[int]int{}
			w.Srv.On("headers", func(a ...any) { perReq[w.ridOf(a[1].(*types.HttpContext))]++ })
			rr := w.Post(s, []Pkt{{Type: "close"}}, ReqOpt{})
			synctest.Wait()
			target := rr
			if step == "pollclose" {
				target = pend
			}
			hdr = target.Hdr
			obs["status"] = target.Status
			nHdr = perReq[target.ID]
			nInit = 0
		} else {
			seq := []string{"poll", "post", "poll2"}
			for _, st := range seq {
				if step == "handshake" {
					break
				}
				nInit, nHdr = 0, 0
				var rr *Req
				if st == "post" {
					rr = w.Post(s, []Pkt{w.ClientMsg(4, false, 0)}, ReqOpt{})
				} else {
					w.Send(sid, SendOpt{})
					rr = w.Poll(s)
				}
				synctest.Wait()
				hdr = rr.Hdr
				obs["status"] = rr.Status
				if st == step {
					break
				}
			}
		}
	}
	obs["headersEvents"], obs["initialHeadersEvents"] = nHdr, nInit
	if hdr != nil {
		sc := hdr.Values("Set-Cookie")
		obs["nSetCookie"] = len(sc)
		if len(sc) > 0 {
			if m := reCookie.FindStringSubmatch(sc[0]); m != nil {
				obs["cookieName"] = m[1]
				obs["cookieIsSid"] = sid != "" && m[2] == sid
				attrs := strings.ToLower(m[3])
				if ck == "custom" {
					obs["cookieAttrsOk"] = strings.Contains(attrs, "path=/x") && strings.Contains(attrs, "samesite=strict") && strings.Contains(attrs, "max-age=3600")
				} else {
					obs["cookieAttrsOk"] = strings.Contains(attrs, "path=/") // documented defaults: name io, path /
				}
			}
		}
	}
	rec.Log("hr.cell", "scn", scn, "kind", "cookie", "cell", cell, "obs", obs)
	w.quietEnd()
}

func hrCorsCell(t *testing.T, rec *Rec, g *Gates, scn string, cell map[string]any) {
	policy, origin := cell["policy"].(string), cell["origin"].(string)
	creds, preflight, cont := cell["creds"].(bool), cell["preflight"].(bool), cell["continue"].(bool)
	status := int(cell["status"].(float64))
	so := &config.ServerOptions{}
	if policy != "none" {
		c := &types.Cors{Credentials: creds, PreflightContinue: cont}
		if status != 204 {
			c.OptionsSuccessStatus = status
		}
		switch policy {
		case "star":
			c.Origin = "*"
		case "string":
			c.Origin = "http://a.example"
		case "list":
			c.Origin = []any{"http://a.example", "http://b.example"}
		case "regexp":
			c.Origin = regexp.MustCompile(`^http://a\.example$`)
		case "true":
			c.Origin = true
		case "false":
			c.Origin = false
		}
		if policy == "list" {
			c.Methods = []string{"GET", "POST"}
			c.AllowedHeaders = []string{"X-A", "X-B"}
		} else {
			c.Methods = "GET,POST"
		}
		so.SetCors(c)
	}
	quiet := &Rec{start: rec.start}
	w := NewWorld(t, quiet, g, WorldOpts{Opts: so})
	created := 0
	w.Srv.On("connection", func(...any) { created++ })
	hdr := http.Header{}
	reqOrigin := ""
	switch origin {
	case "a":
		reqOrigin = "http://a.example"
	case "evil":
		reqOrigin = "http://evil.test"
	}
	if reqOrigin != "" {
		hdr.Set("Origin", reqOrigin)
	}
	method := "GET"
	if preflight {
		method = "OPTIONS"
		hdr.Set("Access-Control-Request-Method", "POST")
	}
	// a Vary header an enclosing handler of the application has already put on the response
	outer, _ := cell["outer"].(string)
	outerVary := map[string]string{"ae": "Accept-Encoding", "xorig": "X-Original-Host", "lower": "origin"}[outer]
	var respHdr http.Header
	if outerVary != "" {
		respHdr = http.Header{"Vary": []string{outerVary}}
	}
	r := w.StartReq("other", nil, ReqOpt{Method: method, Query: "EIO=4&transport=polling", Hdr: hdr, RespHdr: respHdr})
	synctest.Wait()
	if st, _ := cell["step"].(string); st == "bigpoll" && r.Status == 200 {
		// a later poll of the same session, large enough to be compressed
		sid := ""
		for _, p := range DecodeV4Payload(r.Body) {
			if p.Type == "open" {
				sid = openSid(p.Data)
			}
		}
		if sid != "" {
			w.Send(sid, SendOpt{Size: 4000})
			hdr.Set("Accept-Encoding", "gzip")
			r = w.StartReq("other", nil, ReqOpt{Method: "GET", Query: "EIO=4&transport=polling&sid=" + sid, Hdr: hdr})
			synctest.Wait()
		}
	}
	obs := map[string]any{"status": r.Status, "created": created > 0, "acao": "", "acaoIsRequestOrigin": false, "varyOrigin": false, "acac": "", "outerKept": outerVary == ""}
	if r.Hdr != nil {
		acao := r.Hdr.Get("Access-Control-Allow-Origin")
		obs["acao"] = acao
		obs["acaoIsRequestOrigin"] = reqOrigin != "" && acao == reqOrigin
		obs["acac"] = r.Hdr.Get("Access-Control-Allow-Credentials")
		for _, v := range strings.Split(r.Hdr.Get("Vary"), ",") {
			if strings.EqualFold(strings.TrimSpace(v), "Origin") {
				obs["varyOrigin"] = true
			}
			if outerVary != "" && strings.EqualFold(strings.TrimSpace(v), outerVary) {
				obs["outerKept"] = true
			}
		}
	}
	rec.Log("hr.cell", "scn", scn, "kind", "cors", "cell", cell, "obs", obs)
	w.quietEnd()
}

func hrScenarios(behs [][]map[string]any, mode string) []Scenario {
	var cells []map[string]any
	for _, b := range behs {
		cells = append(cells, b...)
	}
	var out []Scenario
	const chunk = 120
	for i := 0; i < len(cells); i += chunk {
		part := cells[i:min(i+chunk, len(cells))]
		name := fmt.Sprintf("hr%d", i/chunk)
		out = append(out, Scenario{Name: name, Run: func(t *testing.T, rec *Rec, g *Gates) {
			for _, c := range part {
				switch {
				case c["rev"] != nil:
					hrRespCell(t, rec, g, name, c)
				case c["cookie"] != nil:
					hrCookieCell(t, rec, g, name, c)
				default:
					hrCorsCell(t, rec, g, name, c)
				}
			}
			time.Sleep(3 * time.Minute)
			synctest.Wait()
		}})
	}
	return out
}
