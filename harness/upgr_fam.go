package harness

import (
	"fmt"
	"math/rand"
	"testing"
	"testing/synctest"
	"time"
)

// Family "upgr": behaviours of spec/Upgrade.tla (several upgrade candidates of one polling session) replayed into the real server.
// Every candidate is a WebSocket (or WebTransport) connection naming the session; the goroutine serving its request is held after the
// admission tests (upgrade.gated), the goroutine handling its upgrade packet after it has released the upgrading flag
// (upgrade.switching). After every step the session's flags, its transport, the number of switches and, for every candidate, whether
// the server has closed it are compared with the model state.
func upgrReplayScenario(name string, beh []map[string]any, wt bool) Scenario {
	return Scenario{Name: name, Run: func(t *testing.T, rec *Rec, g *Gates) {
		cfg := EngCfg{PI: 25 * time.Second, PT: 20 * time.Second, UT: 5 * time.Second, WT: wt}
		w := newEngWorld(t, rec, g, cfg)
		sc := &Script{w: w, r: rand.New(rand.NewSource(1)), cfg: cfg, W: map[string]int{}}
		s, _ := w.Handshake(4, false, false, ReqOpt{})
		c0 := &cliSess{S: s, Kind: "polling", autoPong: true}
		sc.ss = append(sc.ss, c0)
		synctest.Wait()
		if s.Sid == "" {
			w.Finish()
			return
		}
		sid := s.Sid
		nswitch := 0
		w.Hook("upgrade", func(string, ...any) { nswitch++ })
		cands := map[string]*WSClient{}
		ponged := map[*WSClient]bool{}
		probeSent := map[*WSClient]bool{}
		onPkt := func(wc *WSClient, p Pkt) {
			if p.Type == "pong" && string(p.Data) == "probe" {
				ponged[wc] = true
			}
		}
		parkN := map[string]int{} // candidate -> park number of its goroutine held at a gate
		g.Park("upgrade.gated", true)
		g.Park("upgrade.switching", true)
		for _, a := range beh {
			c, _ := a["c"].(string)
			cl := cands[c]
			switch a["a"] {
			case "dial":
				before, _ := g.Newest()
				if wt {
					cl = w.DialWT(s, onPkt)
				} else {
					cl = w.DialWS(s, "", nil, onPkt)
				}
				cands[c] = cl
				synctest.Wait()
				if n, pt := g.Newest(); n > before && pt == "upgrade.gated" {
					parkN[c] = n
				}
			case "enter":
				g.ReleaseN(parkN[c])
				delete(parkN, c)
			case "sendprobe": // as soon as the connection is open - possibly before MaybeUpgrade has attached its listeners
				cl.SendPkt(Pkt{Type: "ping", Data: []byte("probe")})
				probeSent[cl] = true
			case "probe": // the transport's reader reads the probe and the listener answers it, whenever they can
			case "accept":
				before, _ := g.Newest()
				cl.SendPkt(Pkt{Type: "upgrade"})
				synctest.Wait()
				if n, pt := g.Newest(); n > before && pt == "upgrade.switching" {
					parkN[c] = n
				}
			case "switch":
				g.ReleaseN(parkN[c])
				delete(parkN, c)
				synctest.Wait()
				if so := w.Sock(sid); so != nil && so.Upgraded() && so.Transport().Name() != "polling" {
					c0.Kind, c0.ws = "websocket", cl
					cc := c0
					cl.OnPkt = func(wc *WSClient, p Pkt) { sc.processPkts(cc, []Pkt{p}, wc) }
				}
			case "fail":
				cl.Drop()
			case "unexpected":
				cl.SendPkt(Pkt{Type: "upgrade"}) // never probed: not a candidate that follows the protocol
			}
			synctest.Wait()
			if exp, ok := a["exp"].(map[string]any); ok {
				so := w.Sock(sid)
				act := map[string]any{"upgrading": false, "upgraded": false, "tr": "", "nswitch": nswitch, "closed": map[string]any{}}
				if so != nil {
					act["upgrading"], act["upgraded"] = so.Upgrading(), so.Upgraded()
					act["tr"] = "stream"
					if so.Transport().Name() == "polling" {
						act["tr"] = "polling"
					}
				}
				cm, pm := map[string]any{}, map[string]any{}
				for k, x := range cands {
					cm[k] = x.closed
					pm[k] = ponged[x]
				}
				act["closed"], act["probed"] = cm, pm
				if st, ok := exp["settled"].(bool); ok && !st {
					continue // the reader is about to answer a probe: compared after that step
				}
				rec.Log("upgr.expect", "sid", sid, "a", a["a"], "c", c, "exp", exp, "act", act)
			}
		}
		g.Park("upgrade.gated", false)
		g.Park("upgrade.switching", false)
		g.ReleaseAll()
		synctest.Wait()
		// a candidate the server is entertaining now (the session is marked upgrading, its connection is the only one still open) and
		// that has sent its probe has been answered - whenever the probe was sent
		var open []*WSClient
		for _, x := range cands {
			if !x.closed {
				open = append(open, x)
			}
		}
		if so := w.Sock(sid); so != nil && len(open) == 1 {
			rec.Log("upgr.final", "sid", sid, "upgrading", so.Upgrading(), "sentProbe", probeSent[open[0]], "ponged", ponged[open[0]])
		}
		// the session must still work on whatever transport it is on; attempts that were left half-way run into the upgrade timeout
		go w.Send(sid, SendOpt{Size: 5})
		synctest.Wait()
		sc.sleepAlive(cfg.UT + time.Second)
		w.Expect(sid, "open")
		w.Expect(sid, "notupgrading")
		w.Snapshot()
		sc.Drain()
		w.Finish()
	}}
}

func upgrFamily(behs [][]map[string]any) []Scenario {
	var out []Scenario
	for i, b := range behs {
		out = append(out, upgrReplayScenario(fmt.Sprintf("upgr%d", i), b, false))
		if i%3 == 0 {
			out = append(out, upgrReplayScenario(fmt.Sprintf("upgr%dwt", i), b, true))
		}
	}
	return out
}
