package harness

import (
	"fmt"
	"math/rand"
	"strings"
	"testing"
	"testing/synctest"
	"time"

	"github.com/zishang520/engine.io/v2/utils"
)

// ---- family "timer" (C19): utils.Timer driven along TLC behaviours of Timer.tla
// and along seeded random scripts; gates at the two verif yield points.

const gFired = "timer.fired"

// timerGoroutines counts the goroutines that exist on behalf of a timer in this bubble: the goroutine a fired runtime timer
// started (utils.(*Timer).fire) unless it is already running the application's callback.
func timerGoroutines() int {
	n := 0
	for _, g := range GoroutinesInBubble() {
		if !strings.Contains(g, "/utils.(*Timer).fire") && !strings.Contains(g, "/utils.SetTimeout.func") && !strings.Contains(g, "/utils.SetInterval.func") {
			continue
		}
		if strings.Contains(g, "timerSlowCb") || strings.Contains(g, "timerWorld).create.func") {
			continue // a goroutine that is running the application's callback is not a leftover of the timer
		}
		n++
	}
	return n
}

type timerWorld struct {
	rec    *Rec
	g      *Gates
	tm     *utils.Timer
	unit   time.Duration
	kind   string
	period time.Duration
}

func (w *timerWorld) census() {
	synctest.Wait()
	w.rec.Log("census", "g", timerGoroutines(), "calls", 0, "fired", w.g.Parked(gFired))
}

func (w *timerWorld) create(kind string, periodTicks int) {
	w.kind = kind
	w.period = time.Duration(periodTicks) * w.unit
	w.g.Park(gFired, true)
	synctest.Wait()
	w.rec.Log("create", "kind", kind, "p", int64(w.period/time.Microsecond))
	fn := func() { w.rec.Log("run") }
	if kind == "interval" {
		w.tm = utils.SetInterval(fn, w.period)
	} else {
		w.tm = utils.SetTimeout(fn, w.period)
	}
	w.census()
}

func (w *timerWorld) stop(c string, api int) {
	if w.tm == nil {
		return
	}
	w.rec.Log("stop.call", "c", c)
	switch api {
	case 1:
		utils.ClearTimeout(w.tm)
	case 2:
		utils.ClearInterval(w.tm)
	default:
		w.tm.Stop()
	}
	w.rec.Log("stop.ret", "c", c)
	w.census()
}

func (w *timerWorld) refresh(c string) {
	if w.tm == nil {
		return
	}
	w.rec.Log("refresh.call", "c", c)
	w.tm.Refresh()
	w.rec.Log("refresh.ret", "c", c)
	w.census()
}

// tick: one unit of virtual time. The window between a runtime timer firing and its goroutine reaching the timer's mutex is
// instantaneous: whoever is parked in it is let go first; a timer that expires during the unit parks its goroutine again.
func (w *timerWorld) tick() {
	for w.g.Release(gFired) {
		synctest.Wait()
	}
	w.g.SleepArmed(w.unit)
	w.census()
}

// process: the i-th fired goroutine (1-based, park order) goes on to the mutex.
func (w *timerWorld) process(i int) {
	if !w.g.ReleaseNth(gFired, i-1) {
		w.g.Release(gFired)
	}
	w.census()
}

// burst: several API calls back to back from one goroutine, with no quiescence in between.
func (w *timerWorld) burst(r *rand.Rand) {
	n := 2 + r.Intn(3)
	for i := 0; i < n; i++ {
		c := fmt.Sprintf("b%d", i)
		if r.Intn(2) == 0 {
			w.rec.Log("stop.call", "c", c)
			w.tm.Stop()
			w.rec.Log("stop.ret", "c", c)
		} else {
			w.rec.Log("refresh.call", "c", c)
			w.tm.Refresh()
			w.rec.Log("refresh.ret", "c", c)
		}
	}
	w.census()
}

// finish: open all gates, watch three more periods for late callbacks, cancel for cleanup, then watch for a runtime timer
// that is still armed (its goroutine would show up at the yield point).
func (w *timerWorld) finish() {
	if w.tm == nil {
		return
	}
	w.g.StopParking()
	w.g.ReleaseAll()
	w.census()
	for i := 0; i < 3; i++ {
		time.Sleep(w.period)
		w.census()
	}
	w.rec.Log("cleanup")
	w.tm.Stop()
	synctest.Wait()
	before := w.g.Hits(gFired)
	time.Sleep(3 * w.period)
	synctest.Wait()
	w.rec.Log("cleanup.done", "g", timerGoroutines(), "firedAfter", w.g.Hits(gFired)-before)
}

func timerReplay(beh []map[string]any, unit time.Duration) func(t *testing.T, rec *Rec, g *Gates) {
	return func(t *testing.T, rec *Rec, g *Gates) {
		w := &timerWorld{rec: rec, g: g, unit: unit}
		for _, a := range beh {
			switch a["a"] {
			case "create":
				w.create(a["kind"].(string), int(a["p"].(float64)))
			case "tick":
				w.tick()
			case "fire":
				w.census() // the runtime timer expired during the last unit: its goroutine is at the yield point
			case "process":
				i := 1
				if f, ok := a["i"].(float64); ok {
					i = int(f)
				}
				w.process(i)
			case "stop":
				w.stop(a["c"].(string), 0)
			case "refresh":
				w.refresh(a["c"].(string))
			}
		}
		w.finish()
	}
}

func timerRandom(seed int64, steps int) func(t *testing.T, rec *Rec, g *Gates) {
	return func(t *testing.T, rec *Rec, g *Gates) {
		r := rand.New(rand.NewSource(seed))
		unit := []time.Duration{time.Millisecond, 7 * time.Millisecond, time.Second}[r.Intn(3)]
		w := &timerWorld{rec: rec, g: g, unit: unit}
		kind := "timeout"
		if r.Intn(2) == 0 {
			kind = "interval"
		}
		w.create(kind, 1+r.Intn(3))
		callers := []string{"c1", "c2", "c3"}
		for i := 0; i < steps; i++ {
			c := callers[r.Intn(len(callers))]
			switch k := r.Intn(10); {
			case k < 4:
				w.tick()
			case k < 6:
				w.stop(c, r.Intn(3))
			case k < 8:
				w.refresh(c)
			default:
				if n := w.g.Parked(gFired); n > 0 {
					w.process(1 + r.Intn(n))
				}
			}
			if r.Intn(8) == 0 {
				w.burst(r)
			}
			// a fired goroutine is mostly let go at once; sometimes a Stop/Refresh gets in between
			if w.g.Parked(gFired) > 0 && r.Intn(3) > 0 {
				w.process(1)
			}
		}
		w.finish()
	}
}

// timerBurst: every sequence of 2..4 Stop/Refresh calls issued back to back from one
// goroutine (no quiescence in between), from each pre-state of the timer.
func timerBurst(kind string, pre int, seq []bool) func(t *testing.T, rec *Rec, g *Gates) {
	return func(t *testing.T, rec *Rec, g *Gates) {
		w := &timerWorld{rec: rec, g: g, unit: 5 * time.Millisecond}
		w.create(kind, 2)
		w.g.Park(gFired, pre == 3)
		switch pre {
		case 1: // fired at least once
			w.tick()
			w.tick()
			w.tick()
		case 2: // cancelled
			w.tick()
			w.rec.Log("stop.call", "c", "p")
			w.tm.Stop()
			w.rec.Log("stop.ret", "c", "p")
			w.census()
		case 3: // the runtime timer has fired, its goroutine has not reached the mutex yet
			w.g.SleepArmed(2 * w.unit)
			w.census()
		}
		for i, isStop := range seq {
			c := fmt.Sprintf("b%d", i)
			if isStop {
				w.rec.Log("stop.call", "c", c)
				w.tm.Stop()
				w.rec.Log("stop.ret", "c", c)
			} else {
				w.rec.Log("refresh.call", "c", c)
				w.tm.Refresh()
				w.rec.Log("refresh.ret", "c", c)
			}
		}
		w.census()
		w.finish()
	}
}

// timerSlowCb: the callback takes its time (it is parked inside its first run): the interval's later ticks are due all the
// same, a cancellation issued meanwhile returns promptly, a callback may cancel or refresh its own timer.
func timerSlowCb(kind string, variant int) func(t *testing.T, rec *Rec, g *Gates) {
	return func(t *testing.T, rec *Rec, g *Gates) {
		w := &timerWorld{rec: rec, g: g, unit: 5 * time.Millisecond}
		w.kind = kind
		w.period = 2 * w.unit
		synctest.Wait()
		rec.Log("create", "kind", kind, "p", int64(w.period/time.Microsecond))
		first := true
		fn := func() {
			rec.Log("run")
			if first {
				first = false
				switch variant {
				case 0, 1:
					g.at("T.cb", "")
				case 2: // the callback cancels its own timer
					rec.Log("stop.call", "c", "self")
					w.tm.Stop()
					rec.Log("stop.ret", "c", "self")
				case 3: // refreshed from elsewhere while the callback is still running
					g.at("T.cb", "")
				case 4: // the callback refreshes its own timer
					rec.Log("refresh.call", "c", "self")
					w.tm.Refresh()
					rec.Log("refresh.ret", "c", "self")
				}
			}
		}
		g.Park("T.cb", true)
		if kind == "interval" {
			w.tm = utils.SetInterval(fn, w.period)
		} else {
			w.tm = utils.SetTimeout(fn, w.period)
		}
		w.census()
		for i := 0; i < 5; i++ { // two and a half periods with the first callback still running
			time.Sleep(w.unit)
			w.census()
		}
		if variant == 1 {
			w.stop("c1", 0) // cancelled while a callback is still running: must return at once
		}
		if variant == 3 {
			w.refresh("c1") // due one full period from now, whatever the running callback does when it returns
			g.Park("T.cb", false)
			g.ReleaseAll()
			synctest.Wait()
		}
		for i := 0; i < 2; i++ {
			time.Sleep(w.unit)
			w.census()
		}
		g.Park("T.cb", false)
		g.ReleaseAll()
		w.finish()
	}
}

func timerScenarios(behs [][]map[string]any, seed int64, nRandom int) []Scenario {
	var out []Scenario
	for _, kind := range []string{"timeout", "interval"} {
		for v := 0; v < 5; v++ {
			out = append(out, Scenario{Name: fmt.Sprintf("slowcb_%s_%d", kind, v), Run: timerSlowCb(kind, v)})
		}
	}
	for i, b := range behs {
		out = append(out, Scenario{Name: fmt.Sprintf("beh%d", i), Run: timerReplay(b, 10*time.Millisecond)})
	}
	for _, kind := range []string{"timeout", "interval"} {
		for pre := 0; pre < 4; pre++ {
			for n := 2; n <= 4; n++ {
				for m := 0; m < 1<<n; m++ {
					seq := make([]bool, n)
					name := ""
					for i := range seq {
						seq[i] = m&(1<<i) != 0
						if seq[i] {
							name += "S"
						} else {
							name += "R"
						}
					}
					out = append(out, Scenario{Name: fmt.Sprintf("burst_%s_%d_%s", kind, pre, name), Run: timerBurst(kind, pre, seq)})
				}
			}
		}
	}
	for i := 0; i < nRandom; i++ {
		out = append(out, Scenario{Name: fmt.Sprintf("rnd%d_%d", seed, i), Run: timerRandom(seed*100003+int64(i), 12+i%20)})
	}
	return out
}
