// Package harness drives the real engine.io code inside testing/synctest
// bubbles and records what it observes as ndjson traces for TLC.
package harness

import (
	"encoding/json"
	"fmt"
	"os"
	"path/filepath"
	"reflect"
	"runtime"
	"sort"
	"strconv"
	"strings"
	"sync"
	"sync/atomic"
	"testing"
	"testing/synctest"
	"time"

	"github.com/zishang520/engine.io/v2/verifhook"
)

// Ev is one recorded event. Key "e" is the event name.
type Ev map[string]any

// Rec is the recorder: one mutex, one global sequence number, virtual time.
type Rec struct {
	mu     sync.Mutex
	seq    int
	start  time.Time
	events []Ev
	scn    string
	sink   *os.File
}

func (r *Rec) Now() int64 { return int64(time.Since(r.start) / time.Microsecond) }

// Log appends an event; kv are alternating keys and values.
func (r *Rec) Log(name string, kv ...any) {
	r.mu.Lock()
	defer r.mu.Unlock()
	r.seq++
	ev := Ev{"e": name, "seq": r.seq, "t": r.Now()}
	for i := 0; i+1 < len(kv); i += 2 {
		v := kv[i+1]
		if rv := reflect.ValueOf(v); rv.IsValid() && (rv.Kind() == reflect.Slice || rv.Kind() == reflect.Map) && rv.IsNil() {
			v = []any{} // TLC's JSON reader has no null
		} else if v == nil {
			v = ""
		}
		ev[kv[i].(string)] = v
	}
	r.events = append(r.events, ev)
	if r.sink != nil {
		b, _ := json.Marshal(ev)
		r.sink.Write(append(b, '\n'))
	}
}

func (r *Rec) Len() int { r.mu.Lock(); defer r.mu.Unlock(); return len(r.events) }

// CountWhere counts recorded events satisfying f.
func (r *Rec) CountWhere(f func(Ev) bool) int {
	r.mu.Lock()
	defer r.mu.Unlock()
	n := 0
	for _, e := range r.events {
		if f(e) {
			n++
		}
	}
	return n
}

// Out is the per-process output: one ndjson file holding all scenarios,
// separated by reset events.
type Out struct {
	dir   string
	f     *os.File
	Stats map[string]int
	Notes []string
	mu    sync.Mutex
}

func OpenOut(family string) *Out {
	dir := os.Getenv("VERIF_OUT")
	if dir == "" {
		dir = filepath.Join(os.TempDir(), "verif-out")
	}
	os.MkdirAll(dir, 0o755)
	f, err := os.OpenFile(filepath.Join(dir, family+".ndjson"), os.O_CREATE|os.O_WRONLY|os.O_APPEND, 0o644)
	if err != nil {
		panic(err)
	}
	return &Out{dir: dir, f: f, Stats: map[string]int{}}
}

func (o *Out) Count(k string, n int) { o.mu.Lock(); o.Stats[k] += n; o.mu.Unlock() }
func (o *Out) Note(s string)         { o.mu.Lock(); o.Notes = append(o.Notes, s); o.mu.Unlock() }

func (o *Out) Close(family string) {
	o.f.Close()
	b, _ := json.MarshalIndent(map[string]any{"stats": o.Stats, "notes": o.Notes}, "", " ")
	os.WriteFile(filepath.Join(o.dir, family+".summary.json"), b, 0o644)
}

// Gates: verif-tagged yield points double as scheduler gates.
type Gates struct {
	mu     sync.Mutex
	hits   map[string]int  // point -> times reached (parking or not)
	mode   map[string]bool // point -> park?
	parked []*parked
	rec    *Rec
	logAll bool
	pass   bool
}
type parked struct {
	point string
	id    any
	ch    chan struct{}
	n     int
}

func NewGates(rec *Rec) *Gates { return &Gates{mode: map[string]bool{}, hits: map[string]int{}, rec: rec} }

// Hits is the number of times a yield point has been reached so far.
func (g *Gates) Hits(point string) int { g.mu.Lock(); defer g.mu.Unlock(); return g.hits[point] }

// Install makes g the process-wide hook. Must be called inside the bubble.
func (g *Gates) Install() {
	verifhook.Set(func(point string, id any) { g.at(point, id) })
}
func (g *Gates) Uninstall() { verifhook.Set(nil) }

func (g *Gates) Park(point string, on bool) { g.mu.Lock(); g.mode[point] = on; g.mu.Unlock() }

var gateSeq int

// Sleep advances virtual time with every gate open: a goroutine reaching a yield point while the
// driver sleeps could not be scheduled against anything, it would only stay parked across time.
func (g *Gates) Sleep(d time.Duration) {
	g.mu.Lock()
	g.pass = true
	g.mu.Unlock()
	time.Sleep(d)
	synctest.Wait()
	g.mu.Lock()
	g.pass = false
	g.mu.Unlock()
}

// SleepArmed advances virtual time with the gates armed: goroutines started by timers that fire meanwhile park like any
// other (used by the replay of model behaviours, where the model's next step is the release of exactly that goroutine).
func (g *Gates) SleepArmed(d time.Duration) {
	time.Sleep(d)
	synctest.Wait()
}

func (g *Gates) at(point string, id any) {
	if point == "log" { // every debug statement of the library is a yield point named after its format string
		f, _ := id.(string)
		point, id = "log:"+f, ""
	}
	g.mu.Lock()
	if !strings.HasPrefix(point, "log:") {
		g.hits[point]++
	}
	if !g.mode[point] || g.pass {
		g.mu.Unlock()
		return
	}
	gateSeq++
	p := &parked{point: point, id: id, ch: make(chan struct{}), n: gateSeq}
	g.parked = append(g.parked, p)
	g.mu.Unlock()
	g.rec.Log("gate.park", "point", point, "id", idString(id), "g", p.n)
	<-p.ch
}

func idString(id any) string {
	switch v := id.(type) {
	case string:
		return v
	case fmt.Stringer:
		return v.String()
	default:
		return fmt.Sprintf("%p", id)
	}
}

// StopParking switches every gate to pass-through.
func (g *Gates) StopParking() {
	g.mu.Lock()
	for k := range g.mode {
		g.mode[k] = false
	}
	g.mu.Unlock()
}

// ParkedTotal is the number of goroutines parked at any gate (callable from outside the bubble).
func (g *Gates) ParkedTotal() int {
	g.mu.Lock()
	defer g.mu.Unlock()
	return len(g.parked)
}

// Parked returns how many goroutines are parked at point (any id if id == nil).
func (g *Gates) Parked(point string) int {
	g.mu.Lock()
	defer g.mu.Unlock()
	n := 0
	for _, p := range g.parked {
		if p.point == point {
			n++
		}
	}
	return n
}

// Release releases the oldest goroutine parked at point; reports whether one was.
func (g *Gates) Release(point string) bool {
	g.mu.Lock()
	for i, p := range g.parked {
		if p.point == point {
			g.parked = append(g.parked[:i], g.parked[i+1:]...)
			g.mu.Unlock()
			g.rec.Log("gate.release", "point", point, "id", idString(p.id), "g", p.n)
			close(p.ch)
			return true
		}
	}
	g.mu.Unlock()
	return false
}

// ReleaseID releases the oldest goroutine parked at point on behalf of the given session id.
func (g *Gates) ReleaseID(point, id string) bool {
	g.mu.Lock()
	for i, p := range g.parked {
		if p.point == point && idString(p.id) == id {
			g.parked = append(g.parked[:i], g.parked[i+1:]...)
			g.mu.Unlock()
			g.rec.Log("gate.release", "point", point, "id", idString(p.id), "g", p.n)
			close(p.ch)
			return true
		}
	}
	g.mu.Unlock()
	return false
}

// ReleaseNth releases the n-th (0-based, park order) goroutine parked at point.
func (g *Gates) ReleaseNth(point string, n int) bool {
	g.mu.Lock()
	k := 0
	for i, p := range g.parked {
		if p.point == point {
			if k == n {
				g.parked = append(g.parked[:i], g.parked[i+1:]...)
				g.mu.Unlock()
				g.rec.Log("gate.release", "point", point, "id", idString(p.id), "g", p.n)
				close(p.ch)
				return true
			}
			k++
		}
	}
	g.mu.Unlock()
	return false
}

// Newest returns the park number and the point of the goroutine that parked last (0, "" if nobody is parked).
func (g *Gates) Newest() (int, string) {
	g.mu.Lock()
	defer g.mu.Unlock()
	n, pt := 0, ""
	for _, p := range g.parked {
		if p.n > n {
			n, pt = p.n, p.point
		}
	}
	return n, pt
}

// ReleaseN releases the parked goroutine with park number n.
func (g *Gates) ReleaseN(n int) bool {
	g.mu.Lock()
	for i, p := range g.parked {
		if p.n == n {
			g.parked = append(g.parked[:i], g.parked[i+1:]...)
			g.mu.Unlock()
			g.rec.Log("gate.release", "point", p.point, "id", idString(p.id), "g", p.n)
			close(p.ch)
			return true
		}
	}
	g.mu.Unlock()
	return false
}

// ReleaseExcept releases every parked goroutine but the one with park number keep; reports whether any was released.
func (g *Gates) ReleaseExcept(keep int) bool {
	g.mu.Lock()
	var ps, rest []*parked
	for _, p := range g.parked {
		if p.n == keep {
			rest = append(rest, p)
		} else {
			ps = append(ps, p)
		}
	}
	g.parked = rest
	g.mu.Unlock()
	for _, p := range ps {
		g.rec.Log("gate.release", "point", p.point, "id", idString(p.id), "g", p.n)
		close(p.ch)
	}
	return len(ps) > 0
}

// ReleaseAll releases every parked goroutine (parking modes stay as they are).
func (g *Gates) ReleaseAll() {
	g.mu.Lock()
	ps := g.parked
	g.parked = nil
	g.mu.Unlock()
	for _, p := range ps {
		g.rec.Log("gate.release", "point", p.point, "id", idString(p.id), "g", p.n)
		close(p.ch)
	}
}

// Scenario is one bubble run.
type Scenario struct {
	Name string
	Run  func(t *testing.T, rec *Rec, g *Gates)
	// NoBubble: run with real goroutines and the real clock (lock-based code: a goroutine
	// blocked on a sync.Mutex is not durably blocked, so a bubble's clock would never advance).
	NoBubble bool
}

// Exit statuses of a worker process.
const (
	ExitWedged = 3
	ExitPanic  = 4
)

// RunScenario runs sc in a fresh bubble, recording into out. A wall-clock
// watchdog outside the bubble turns a wedge (goroutine blocked on a sync.Mutex
// never lets the bubble quiesce) into a recorded event and a reserved exit code.
func RunScenario(t *testing.T, out *Out, idx int, sc Scenario, wallBudget time.Duration) {
	rec := &Rec{scn: sc.Name, sink: out.f}
	hdr, _ := json.Marshal(Ev{"e": "reset", "scn": sc.Name, "idx": idx, "seq": 0, "t": 0})
	out.f.Write(append(hdr, '\n'))
	done := make(chan struct{})
	var curGates atomic.Pointer[Gates]
	go func() { // outside the bubble: real time
		select {
		case <-done:
		case <-time.After(wallBudget):
			// A goroutine parked at a gate may hold a lock another goroutine needs; a goroutine blocked on a
			// sync.Mutex is not durably blocked, so the bubble can neither quiesce nor advance its clock.
			// That is an artefact of parking, not a deadlock of the code: recorded as "stall" (no verdict).
			kind := "wedged"
			if g := curGates.Load(); g != nil && g.ParkedTotal() > 0 {
				kind = "stall"
			}
			b, _ := json.Marshal(Ev{"e": kind, "scn": sc.Name, "idx": idx, "seq": 1 << 30, "t": 0})
			out.f.Write(append(b, '\n'))
			buf := make([]byte, 1<<20)
			n := runtime.Stack(buf, true)
			os.WriteFile(filepath.Join(out.dir, "wedge-"+strconv.Itoa(idx)+".stacks"), buf[:n], 0o644)
			out.Count(kind, 1)
			out.Close(os.Getenv("VERIF_FAMILY"))
			os.Exit(ExitWedged)
		}
	}()
	func() {
		defer func() {
			if r := recover(); r != nil {
				msg := fmt.Sprint(r)
				b, _ := json.Marshal(Ev{"e": "bubble.panic", "scn": sc.Name, "msg": msg, "leak": strings.Contains(msg, "blocked goroutines remain"), "seq": 1 << 30, "t": 0})
				out.f.Write(append(b, '\n'))
				out.Count("bubble_panics", 1)
			}
		}()
		if sc.NoBubble {
			rec.start = time.Now()
			sc.Run(t, rec, NewGates(rec))
			rec.Log("end")
			return
		}
		synctest.Test(t, func(t *testing.T) {
			rec.start = time.Now()
			g := NewGates(rec)
			curGates.Store(g)
			g.Install()
			defer g.Uninstall()
			sc.Run(t, rec, g)
			g.StopParking()
			g.ReleaseAll()
			synctest.Wait()
			rec.Log("end")
		})
	}()
	close(done)
	out.Count("scenarios", 1)
	out.Count("events", len(rec.events))
}

// Seed returns VERIF_SEED (default 1).
func Seed() int64 {
	if s := os.Getenv("VERIF_SEED"); s != "" {
		if n, err := strconv.ParseInt(s, 10, 64); err == nil {
			return n
		}
	}
	return 1
}

func Tier() string {
	if os.Getenv("VERIF_TIER") == "thorough" {
		return "thorough"
	}
	return "quick"
}

func EnvInt(k string, def int) int {
	if s := os.Getenv(k); s != "" {
		if n, err := strconv.Atoi(s); err == nil {
			return n
		}
	}
	return def
}

func sortedKeys[V any](m map[string]V) []string {
	ks := make([]string, 0, len(m))
	for k := range m {
		ks = append(ks, k)
	}
	sort.Strings(ks)
	return ks
}

// LoadBehaviours reads a JSON file holding a list of behaviours (each a list of action records).
func LoadBehaviours(path string) [][]map[string]any {
	if path == "" {
		return nil
	}
	b, err := os.ReadFile(path)
	if err != nil {
		panic(err)
	}
	var out [][]map[string]any
	if err := json.Unmarshal(b, &out); err != nil {
		panic(err)
	}
	return out
}
