package harness

import (
	"bytes"
	"fmt"
	"io"
	"math/rand"
	"net/http"
	"strings"
	"sync"
	"syscall"
	"testing"
	"testing/synctest"
	"time"
)

// ---- generic scripted driver: a weighted random walk (or a replayed TLC behaviour) over the
// client / application / clock / gate primitives. Every primitive is followed by quiescence.

type cliSess struct {
	S        *Sess
	Kind     string // polling | websocket
	poll     *Req   // outstanding poll
	posts    []*Req
	ws       *WSClient   // main socket transport
	cands    []*WSClient // upgrade candidates
	dead     bool        // the client considers the session over
	autoPong bool
}

type Script struct {
	w     *World
	r     *rand.Rand
	cfg   EngCfg
	ss    []*cliSess
	W     map[string]int // action weights
	gates []string       // hook points that may be parked in this script
}

func (sc *Script) wait() { synctest.Wait() }

func (sc *Script) live() []*cliSess {
	var out []*cliSess
	for _, c := range sc.ss {
		if !c.dead && c.S.Sid != "" {
			out = append(out, c)
		}
	}
	return out
}

func (sc *Script) pick(cs []*cliSess) *cliSess {
	if len(cs) == 0 {
		return nil
	}
	return cs[sc.r.Intn(len(cs))]
}

// processPkts reacts to packets the client received for c (auto pong, close).
func (sc *Script) processPkts(c *cliSess, pk []Pkt, viaWS *WSClient) {
	for _, p := range pk {
		switch p.Type {
		case "close":
			c.dead = true
		case "ping":
			if c.autoPong && c.S.Proto == 4 && string(p.Data) != "probe" {
				if viaWS != nil {
					viaWS.SendPkt(Pkt{Type: "pong"})
				} else {
					c.posts = append(c.posts, sc.w.Post(c.S, []Pkt{{Type: "pong"}}, ReqOpt{}))
				}
			}
		}
	}
}

// reap looks at finished requests (after quiescence).
func (sc *Script) reap() {
	for _, c := range sc.ss {
		if c.poll != nil && c.poll.Status != 0 {
			r := c.poll
			c.poll = nil
			if r.Status != 200 {
				c.dead = true
			} else {
				sc.processPkts(c, r.Pkts, nil)
			}
		}
		var keep []*Req
		for _, p := range c.posts {
			if p.Status == 0 && !p.returned {
				keep = append(keep, p)
			} else if p.Status != 0 && p.Status != 200 {
				c.dead = true
			}
		}
		c.posts = keep
		if c.ws != nil && c.ws.closed {
			c.dead = true
		}
	}
}

func (sc *Script) settle() {
	for i := 0; i < 6; i++ {
		sc.wait()
		before := sc.w.rec.Len()
		sc.reap()
		sc.wait()
		if sc.w.rec.Len() == before {
			return
		}
	}
}

func (sc *Script) newSession() {
	r := sc.r
	proto := 4
	if sc.cfg.EIO3 && r.Intn(3) == 0 {
		proto = 3
	}
	if sc.cfg.WT && sc.W["wt-direct"] > 0 && r.Intn(100) < sc.W["wt-direct"] {
		s := &Sess{Proto: 4}
		c := &cliSess{S: s, Kind: "websocket", autoPong: true} // a stream transport: driven like a websocket
		c.ws = sc.w.DialWT(s, func(wc *WSClient, p Pkt) { sc.processPkts(c, []Pkt{p}, wc) })
		sc.wait()
		if s.Sid == "" {
			c.dead = true
		}
		sc.ss = append(sc.ss, c)
		return
	}
	if sc.W["ws-direct"] > 0 && r.Intn(100) < sc.W["ws-direct"] {
		s := &Sess{Proto: proto, B64: r.Intn(6) == 0}
		c := &cliSess{S: s, Kind: "websocket", autoPong: true}
		c.ws = sc.w.DialWS(s, "", nil, func(wc *WSClient, p Pkt) { sc.processPkts(c, []Pkt{p}, wc) })
		sc.wait()
		if s.Sid == "" {
			c.dead = true
		}
		sc.ss = append(sc.ss, c)
		return
	}
	jsonp := sc.W["jsonp"] > 0 && r.Intn(100) < sc.W["jsonp"]
	b64 := jsonp || r.Intn(5) == 0
	s, _ := sc.w.Handshake(proto, b64, jsonp, ReqOpt{Hdr: sc.acceptEnc()})
	c := &cliSess{S: s, Kind: "polling", autoPong: true}
	if s.Sid == "" {
		c.dead = true
	}
	sc.ss = append(sc.ss, c)
}

func (sc *Script) acceptEnc() http.Header {
	h := http.Header{}
	switch sc.r.Intn(6) {
	case 0:
		h.Set("Accept-Encoding", "gzip")
	case 1:
		h.Set("Accept-Encoding", "gzip, deflate, br")
	case 2:
		h.Set("Accept-Encoding", "deflate")
	case 3:
		h.Set("Accept-Encoding", "br")
	case 4:
		h.Set("Accept-Encoding", "zstd")
	}
	return h
}

func (sc *Script) doPoll(c *cliSess) {
	if c.Kind != "polling" || c.poll != nil || c.dead {
		return
	}
	c.poll = sc.w.StartReq("poll", c.S, ReqOpt{Hdr: sc.acceptEnc()})
}

var sendSizes = []int{0, 1, 4, 40, 130, 1100, 5000, 70000}

func (sc *Script) doSend(c *cliSess) {
	r := sc.r
	o := SendOpt{Size: sendSizes[r.Intn(4)], Bin: r.Intn(3) == 0, Class: r.Intn(4), Cb: r.Intn(3) == 0}
	if r.Intn(8) == 0 {
		o.Size = sendSizes[4+r.Intn(4)]
	}
	if r.Intn(4) == 0 {
		v := r.Intn(2) == 0
		o.Compress = &v
	}
	if sc.W["preenc"] > 0 && r.Intn(100) < sc.W["preenc"] && c.S.Proto == 4 {
		o.PreEnc = true
	}
	if r.Intn(10) == 0 && !o.Bin {
		o.Reader = true
	}
	if c.S.Proto == 3 && !c.S.B64 && !c.S.JSONP && c.Kind == "polling" {
		o.Class = 0 // v3 binary payload framing: string packets stay ASCII (see DESIGN limits)
	}
	sid := c.S.Sid
	go sc.w.Send(sid, o) // application calls run on their own goroutine (they may park at a gate)
}

func (sc *Script) clientMsgs(c *cliSess) []Pkt {
	r := sc.r
	n := 1 + r.Intn(3)
	var ps []Pkt
	for i := 0; i < n; i++ {
		if r.Intn(6) == 0 {
			ps = append(ps, Pkt{Type: "noop"})
			continue
		}
		bin := r.Intn(3) == 0
		class := r.Intn(4)
		if c.S.Proto == 3 && bin && !c.S.B64 {
			class = 0 // v3 binary payload framing: string packets stay ASCII (see DESIGN limits)
		}
		nsz := 5
		if sc.cfg.MaxBuf > 0 {
			nsz = 4 // a small payload limit is configured: every single message (and every payload of up to 3) stays well below it
		}
		ps = append(ps, sc.w.ClientMsg(sendSizes[r.Intn(nsz)], bin, class))
	}
	if c.S.Proto == 3 && !c.S.B64 && !c.S.JSONP {
		hasBin := false
		for _, p := range ps {
			hasBin = hasBin || p.Bin
		}
		if hasBin && sc.r.Intn(6) > 0 {
			// mostly avoid string packets inside a v3 binary payload (known parser finding, see known-findings.json)
			for i := range ps {
				if !ps[i].Bin {
					ps[i] = sc.w.ClientMsg(8, true, 0)
				}
			}
		} else if hasBin {
			for i := range ps {
				if ps[i].Type == "message" && !ps[i].Bin {
					ps[i] = sc.w.ClientMsg(8, false, 0)
				}
			}
		}
	}
	return ps
}

func (sc *Script) doPost(c *cliSess) {
	if c.Kind != "polling" || len(c.posts) > 0 || c.dead {
		return
	}
	ps := sc.clientMsgs(c)
	if sc.W["close-in-payload"] > 0 && sc.r.Intn(100) < sc.W["close-in-payload"] {
		k := sc.r.Intn(len(ps) + 1)
		ps = append(ps[:k], append([]Pkt{{Type: "close"}}, ps[k:]...)...)
		sc.w.Cause(c.S.Sid, "peer")
	}
	c.posts = append(c.posts, sc.w.Post(c.S, ps, ReqOpt{}))
}

func (sc *Script) doWsMsg(c *cliSess) {
	if c.ws == nil || c.ws.closed || c.dead {
		return
	}
	for _, p := range sc.clientMsgs(c) {
		if p.Type == "message" {
			c.ws.SendPkt(p)
		}
	}
}

func (sc *Script) doTime() {
	// every gate window is instantaneous: nobody stays parked while virtual time passes
	sc.w.g.ReleaseAll()
	sc.settle()
	r := sc.r
	var d time.Duration
	switch k := r.Intn(10); {
	case k < 4:
		d = time.Duration(1+r.Intn(50)) * time.Millisecond
	case k < 7:
		d = 100 * time.Millisecond
	case k < 9:
		d = sc.cfg.PI / 2
	default:
		d = sc.cfg.PI + sc.cfg.PT/2
	}
	if d >= sc.cfg.PI/2 && sc.r.Intn(3) > 0 {
		sc.sleepAlive(d) // mostly keep the sessions alive across long pauses; sometimes let them starve
		return
	}
	sc.w.g.Sleep(d)
}

func (sc *Script) doAppClose(c *cliSess) {
	sid, discard := c.S.Sid, sc.r.Intn(2) == 0
	go sc.w.Close(sid, discard)
}

func (sc *Script) doPeerClose(c *cliSess) {
	r := sc.r
	sid := c.S.Sid
	if c.Kind == "websocket" || (c.ws != nil && !c.ws.closed) {
		sc.w.Cause(sid, "peer")
		sc.w.Cause(sid, "error")
		if r.Intn(2) == 0 || c.ws.Kind == "webtransport" {
			c.ws.Drop()
		} else {
			c.ws.CloseFrame()
		}
		c.dead = true
		return
	}
	switch r.Intn(3) {
	case 0:
		if c.poll != nil {
			sc.w.Cause(sid, "error")
			sc.w.Abort(c.poll)
			c.poll = nil
			c.dead = true
		}
	default:
		if len(c.posts) == 0 {
			sc.w.Cause(sid, "peer")
			c.posts = append(c.posts, sc.w.Post(c.S, []Pkt{{Type: "close"}}, ReqOpt{}))
			c.dead = true
		}
	}
}

// ---- upgrade candidates
func (sc *Script) doCandOpen(c *cliSess) {
	if c.Kind != "polling" || c.dead {
		return
	}
	var cand *WSClient
	if sc.cfg.WT && c.S.Proto == 4 && sc.W["wt-cand"] > 0 && sc.r.Intn(100) < sc.W["wt-cand"] {
		cand = sc.w.DialWT(c.S, nil)
	} else {
		cand = sc.w.DialWS(c.S, "", nil, nil)
	}
	c.cands = append(c.cands, cand)
}

// a websocket request naming a session that is already over (the client has not noticed, or is probing)
func (sc *Script) doCandLate() {
	for _, c := range sc.ss {
		if c.S.Sid == "" {
			continue
		}
		if so := sc.w.Sock(c.S.Sid); so != nil && so.ReadyState() == "closed" {
			sc.w.DialWS(c.S, "", nil, nil)
			return
		}
	}
}

func (sc *Script) doCandStep(c *cliSess) {
	if len(c.cands) == 0 {
		return
	}
	cand := c.cands[sc.r.Intn(len(c.cands))]
	if cand.closed {
		return
	}
	r := sc.r
	switch k := r.Intn(20); {
	case k < 8:
		cand.SendPkt(Pkt{Type: "ping", Data: []byte("probe")})
	case k < 13:
		cand.SendPkt(Pkt{Type: "upgrade"})
		sc.wait()
		if s := sc.w.Sock(c.S.Sid); s != nil && s.Upgraded() && s.Transport().Name() == cand.Kind && !cand.closed {
			// the client switches: the candidate is now the main transport, polling is abandoned
			c.Kind = "websocket"
			c.ws = cand
			cand.OnPkt = func(wc *WSClient, p Pkt) { sc.processPkts(c, []Pkt{p}, wc) }
			var rest []*WSClient
			for _, x := range c.cands {
				if x != cand {
					rest = append(rest, x)
				}
			}
			c.cands = rest
		}
	case k < 14:
		cand.SendPkt(Pkt{Type: "ping", Data: []byte("other")})
	case k < 15:
		cand.SendPkt(Pkt{Type: "pong"})
	case k < 16:
		cand.SendPkt(sc.w.ClientMsg(4, false, 0))
	case k < 17:
		cand.SendPkt(Pkt{Type: "noop"})
	case k < 18:
		cand.SendRaw(1, []byte("9garbage"))
		sc.w.rec.Log("cli.ws.send", "cid", cand.ID, "sid", c.S.Sid, "pk", map[string]any{"ty": "garbage-cand", "id": 0, "bin": false, "d": ""})
	default:
		cand.Drop()
	}
}

// ---- gates
func (sc *Script) doGate() {
	if len(sc.gates) == 0 {
		return
	}
	g := sc.gates[sc.r.Intn(len(sc.gates))]
	if sc.w.g.Parked(g) > 0 && sc.r.Intn(3) > 0 {
		sc.w.g.Release(g)
		return
	}
	sc.w.g.Park(g, sc.r.Intn(3) > 0)
}

func (sc *Script) releaseAllGates() {
	for _, g := range sc.gates {
		sc.w.g.Park(g, false)
	}
	sc.w.g.ReleaseAll()
}

func (sc *Script) doOverlap(c *cliSess) {
	if c.Kind != "polling" || c.dead {
		return
	}
	sid := c.S.Sid
	if c.poll != nil && sc.r.Intn(2) == 0 {
		sc.w.Cause(sid, "error")
		sc.w.StartReq("poll", c.S, ReqOpt{})
		c.dead = true
	} else if len(c.posts) > 0 {
		sc.w.Cause(sid, "error")
		sc.w.Post(c.S, sc.clientMsgs(c), ReqOpt{})
		c.dead = true
	}
}

// Step performs one weighted random action.
func (sc *Script) Step() {
	type act struct {
		name string
		f    func()
	}
	live := sc.live()
	c := sc.pick(live)
	var acts []act
	add := func(name string, f func()) {
		for i := 0; i < sc.W[name]; i++ {
			acts = append(acts, act{name, f})
		}
	}
	if len(sc.ss) < sc.W["max-sessions"] {
		add("handshake", sc.newSession)
	}
	if c != nil {
		add("poll", func() { sc.doPoll(c) })
		add("send", func() { sc.doSend(c) })
		add("post", func() { sc.doPost(c) })
		add("wsmsg", func() { sc.doWsMsg(c) })
		add("appclose", func() { sc.doAppClose(c) })
		add("peerclose", func() { sc.doPeerClose(c) })
		add("candopen", func() { sc.doCandOpen(c) })
		add("candstep", func() { sc.doCandStep(c) })
		add("overlap", func() { sc.doOverlap(c) })
	}
	add("time", sc.doTime)
	add("candlate", sc.doCandLate)
	add("gate", sc.doGate)
	add("srvclose", func() { go sc.w.ServerClose() })
	if len(acts) == 0 {
		sc.doTime()
	} else {
		acts[sc.r.Intn(len(acts))].f()
	}
	sc.settle()
}

// Drain: open all gates, let a conformant client read everything, then state the expectations.
func (sc *Script) Drain() {
	sc.releaseAllGates()
	sc.settle()
	for round := 0; round < 40; round++ {
		progress := false
		for _, c := range sc.live() {
			if c.Kind == "polling" && c.poll == nil {
				sc.doPoll(c)
				progress = true
			}
		}
		before := sc.w.rec.Len()
		sc.settle()
		if !progress && sc.w.rec.Len() == before {
			break
		}
	}
	sc.w.g.Sleep(150 * time.Millisecond) // one upgrade check period: a parked poll gets its noop
	sc.settle()
	for _, c := range sc.live() {
		if c.Kind == "polling" && c.poll == nil {
			sc.doPoll(c)
		}
	}
	sc.settle()
	for _, c := range sc.live() {
		if s := sc.w.Sock(c.S.Sid); s != nil && s.ReadyState() == "open" {
			sc.w.Expect(c.S.Sid, "drained")
			sc.w.Expect(c.S.Sid, "delivered")
		}
	}
	sc.w.Snapshot()
}

func scriptScenario(name string, seed int64, cfg EngCfg, weights map[string]int, gates []string, steps int) Scenario {
	return Scenario{Name: name, Run: func(t *testing.T, rec *Rec, g *Gates) {
		w := newEngWorld(t, rec, g, cfg)
		sc := &Script{w: w, r: rand.New(rand.NewSource(seed)), cfg: cfg, W: weights, gates: gates}
		sc.newSession()
		sc.settle()
		n := steps/2 + sc.r.Intn(steps)
		for i := 0; i < n; i++ {
			sc.Step()
			if i%5 == 4 {
				w.Snapshot()
			}
		}
		sc.Drain()
		w.Finish()
	}}
}

var (
	wFlow = map[string]int{"max-sessions": 2, "handshake": 1, "poll": 8, "send": 10, "post": 5, "wsmsg": 4, "time": 3, "ws-direct": 30,
		"jsonp": 15, "preenc": 15, "candopen": 1, "candstep": 4, "gate": 2, "wt-direct": 15, "wt-cand": 40}
	wLife = map[string]int{"max-sessions": 3, "handshake": 2, "poll": 5, "send": 4, "post": 3, "wsmsg": 2, "time": 3, "ws-direct": 35,
		"appclose": 3, "peerclose": 3, "srvclose": 1, "gate": 4, "close-in-payload": 25, "candopen": 1, "candstep": 2, "candlate": 2, "wt-direct": 12, "wt-cand": 40}
	wUpg = map[string]int{"max-sessions": 2, "handshake": 1, "poll": 6, "send": 5, "post": 3, "wsmsg": 3, "time": 4,
		"candopen": 4, "candstep": 12, "gate": 3, "appclose": 1, "peerclose": 1, "wt-cand": 45}
	wPoll = map[string]int{"max-sessions": 2, "handshake": 1, "poll": 8, "send": 5, "post": 6, "time": 3, "overlap": 3,
		"peerclose": 2, "appclose": 1, "gate": 4, "jsonp": 10, "close-in-payload": 15}
)

func scriptFamily(fam string, seed int64, n int) []Scenario {
	var out []Scenario
	for i := 0; i < n; i++ {
		cfg := EngCfg{PI: 25 * time.Second, PT: 20 * time.Second, EIO3: true, WT: i%5 != 4}
		if i%4 == 1 {
			cfg.PI, cfg.PT = 400*time.Millisecond, 300*time.Millisecond
		}
		if i%7 == 3 {
			cfg.UT = 500 * time.Millisecond
		}
		if i%6 == 2 {
			cfg.MaxBuf = 2000 // many small messages add up to far more than the limit: it is a per-message limit
		}
		var w map[string]int
		var gates []string
		switch fam {
		case "flow":
			w, gates = wFlow, []string{"polling.send.enter", "ws.send.enter", "wt.send.enter", "upgrade.check", "L.flush", "L.upgrade", "L.drain"}
		case "life":
			w, gates = wLife, []string{"socket.onclose.tested", "socket.close.tested", "handshake.constructed", "ws.send.enter", "polling.send.enter", "L.close", "L.flush", "L.message",
				"log:readyState updated from %s to %s", "log:closing the transport (discard? %t)", "log:setting new request for existing client", "log:closing"}
		case "upg":
			w, gates = wUpg, []string{"upgrade.gated", "upgrade.check", "ws.send.enter", "wt.send.enter", "polling.send.enter", "L.flush", "L.close", "L.upgrade", "L.upgrading",
				"log:upgrading existing transport", "log:got upgrade packet - upgrading", "log:got probe ping packet, sending pong"}
		case "poll":
			w, gates = wPoll, []string{"polling.poll.tested", "polling.data.tested", "polling.send.enter", "L.message", "L.flush", "L.close", "rw.write",
				"log:setting request", "log:aborting ongoing data request"}
		}
		if i%3 == 0 {
			gates = nil // plain runs without any gate
		}
		out = append(out, scriptScenario(fmt.Sprintf("%s%d_%d", fam, seed, i), seed*1000003+int64(i), cfg, w, gates, 24))
	}
	return out
}

// ---- replay of TLC behaviours of EioSession.tla: each model action maps to one driver primitive;
// the writer goroutines and the second half of OnClose are driven through the verif gates.
func replayScenario(name string, beh []map[string]any, wtCand bool) Scenario {
	return Scenario{Name: name, Run: func(t *testing.T, rec *Rec, g *Gates) {
		cfg := EngCfg{PI: 2 * time.Second, PT: time.Second, UT: 5 * time.Second, WT: wtCand}
		streamGate := "ws.send.enter"
		if wtCand {
			streamGate = "wt.send.enter"
		}
		w := newEngWorld(t, rec, g, cfg)
		sc := &Script{w: w, r: rand.New(rand.NewSource(1)), cfg: cfg, W: map[string]int{},
			gates: []string{"polling.send.enter", streamGate, "socket.onclose.tested", "L.flush", "L.close"}}
		s, _ := w.Handshake(4, false, false, ReqOpt{})
		c := &cliSess{S: s, Kind: "polling", autoPong: false}
		sc.ss = append(sc.ss, c)
		if s.Sid == "" {
			w.Finish()
			return
		}
		for _, gt := range sc.gates {
			g.Park(gt, true)
		}
		// the drain-listener window is stepped only by behaviours of configurations that have it
		for _, a := range beh {
			if d, _ := a["dwin"].(bool); a["a"] == "flush.done" || d {
				g.Park("L.drain", true)
			}
			if d, _ := a["cwin"].(bool); a["a"] == "appclose.wait" || d {
				g.Park(closeWaitPoint, true)
			}
		}
		sid := s.Sid
		var cand *WSClient
		// data requests as goroutines of their own (feature "dreq" of the model): the handler is held after it has taken the
		// slot (polling.data.tested) and after every packet it has processed (the harness's own listener of the transport's
		// "packet" event runs after the socket's)
		var post *Req
		for _, a := range beh {
			if a["a"] == "post" {
				g.Park("polling.data.tested", true)
				g.Park("T.packet", true)
				if so := w.Sock(sid); so != nil {
					so.Transport().On("packet", func(...any) { g.at("T.packet", sid) })
				}
				break
			}
		}
		// the heartbeat instants of the session (revision 4): the model's "ping" / "pingtimeout" steps are the timers firing
		pingDue := time.Now().Add(cfg.PI)
		var pingAt time.Time
		sleepUntil := func(at time.Time) {
			if d := time.Until(at); d > 0 {
				g.SleepArmed(d)
			} else {
				synctest.Wait()
			}
		}
		for _, a := range beh {
			switch a["a"] {
			case "send":
				go w.Send(sid, SendOpt{Size: 6})
			case "flush.hand":
				g.Release("L.flush")
			case "flush.done":
				g.Release("L.drain")
			case "appclose":
				d, _ := a["discard"].(bool)
				go w.Close(sid, d)
			case "appclose.wait":
				g.Release(closeWaitPoint)
			case "poll":
				c.poll = w.StartReq("poll", s, ReqOpt{})
			case "poll.overlap":
				w.Cause(sid, "error")
				w.StartReq("poll", s, ReqOpt{}) // refused with 400: never the session's pending poll
			case "poll.abort":
				if c.poll != nil {
					w.Cause(sid, "error")
					w.Abort(c.poll)
				}
			case "pollwrite":
				i := 1
				if f, ok := a["i"].(float64); ok {
					i = int(f)
				}
				if !g.ReleaseNth("polling.send.enter", i-1) {
					g.Release("polling.send.enter")
				}
			case "wswrite":
				g.Release(streamGate)
			case "onclose.mid":
				g.Release("socket.onclose.tested")
			case "onclose.finish":
				g.Release("L.close")
			case "onclose.rest":
				g.Release("socket.onclose.tested")
				sc.settle()
				g.Release("L.close")
			case "post":
				var pk []Pkt
				ks, _ := a["k"].(string)
				for _, k := range strings.Split(ks, "") {
					switch k {
					case "m":
						pk = append(pk, w.ClientMsg(5, false, 1))
					case "c":
						w.Cause(sid, "peer")
						pk = append(pk, Pkt{Type: "close"})
					case "o":
						pk = append(pk, Pkt{Type: "pong"})
					}
				}
				if ks == "X" { // a body whose declared length is above the limit
					post = w.StartReq("post", s, ReqOpt{Method: "POST", Body: []byte("4x"), DeclLen: 5000000})
				} else {
					post = w.Post(s, pk, ReqOpt{})
				}
			case "post.overlap":
				w.Cause(sid, "error")
				w.Post(s, []Pkt{{Type: "pong"}}, ReqOpt{}) // refused with 400: never the session's data request
			case "post.step":
				if !g.Release("polling.data.tested") {
					g.Release("T.packet")
				}
			case "post.abort":
				if post != nil {
					w.Cause(sid, "error")
					w.Abort(post)
				}
			case "climsg":
				if c.Kind == "polling" {
					w.Post(s, []Pkt{w.ClientMsg(5, false, 1)}, ReqOpt{})
				} else if c.ws != nil {
					c.ws.SendPkt(w.ClientMsg(5, false, 1))
				}
			case "peerclose":
				w.Cause(sid, "peer")
				w.Cause(sid, "error")
				if c.Kind == "polling" {
					w.Post(s, []Pkt{{Type: "close"}}, ReqOpt{})
				} else if c.ws != nil {
					c.ws.CloseFrame()
				}
			case "cand.open":
				if wtCand {
					cand = w.DialWT(s, nil)
				} else {
					cand = w.DialWS(s, "", nil, nil)
				}
			case "cand.probe":
				if cand != nil && !cand.closed {
					cand.SendPkt(Pkt{Type: "ping", Data: []byte("probe")})
				}
			case "check":
				g.SleepArmed(100 * time.Millisecond)
			case "cand.upgrade", "cand.upgrade.late":
				if cand != nil && !cand.closed {
					cand.SendPkt(Pkt{Type: "upgrade"})
					sc.wait()
					if so := w.Sock(sid); so != nil && so.Upgraded() {
						c.Kind, c.ws = "websocket", cand
					}
				}
			case "cand.fail":
				if cand != nil {
					cand.Drop()
					cand = nil
					// a writer goroutine of the dropped candidate still parked would be taken for the next candidate's
					sc.settle()
					for g.Release(streamGate) {
						sc.settle()
					}
				}
			case "ping":
				sleepUntil(pingDue)
				pingAt = time.Now()
			case "pong":
				if c.Kind == "polling" {
					w.Post(s, []Pkt{{Type: "pong"}}, ReqOpt{})
				} else if c.ws != nil {
					c.ws.SendPkt(Pkt{Type: "pong"})
				}
				sc.wait()
				pingDue = time.Now().Add(cfg.PI)
			case "pingtimeout":
				sleepUntil(pingAt.Add(cfg.PT))
			}
			sc.settle()
			if exp, ok := a["exp"].(map[string]any); ok {
				w.logModelExpect(sid, c.poll, post, a["a"], exp)
			}
		}
		g.StopParking()
		g.ReleaseAll()
		sc.settle()
		c.autoPong = true
		sc.Drain()
		w.Finish()
	}}
}

func replayFamily(behs [][]map[string]any) []Scenario {
	var out []Scenario
	for i, b := range behs {
		out = append(out, replayScenario(fmt.Sprintf("beh%d", i), b, false))
		hasCand := false
		for _, a := range b {
			hasCand = hasCand || a["a"] == "cand.open"
		}
		if hasCand && i%2 == 0 { // the model's stream transport "w" stands for websocket and webtransport alike
			out = append(out, replayScenario(fmt.Sprintf("beh%dwt", i), b, true))
		}
	}
	return out
}

// ---------------------------------------------------------------- hostile inputs (C09) and size limits (C10)

var hostileClasses = []string{"wrongdir", "early-heartbeat", "unknown-type", "empty-packet", "v3-trunc-len", "v3-inflated-len", "v3-neg-len",
	"v3bin-garbage", "bad-utf8", "bad-base64", "octet-v4", "odd-method", "huge-query", "jsonp-garbage", "ws-binary-on-b64", "ws-empty",
	"ws-control", "ws-after-close", "post-after-close", "eio-mismatch-upgrade", "garbage-body", "double-colon", "many-packets",
	"probe-repeat", "probe-then-silence", "wt-bad-handshake", "bad-accept-encoding", "bad-headers"}

func cpuNow() time.Duration {
	var ru syscall.Rusage
	syscall.Getrusage(syscall.RUSAGE_SELF, &ru)
	return time.Duration(ru.Utime.Nano() + ru.Stime.Nano())
}

// hostile performs one hostile input of the given class against c; returns bytes sent.
func (sc *Script) hostile(c *cliSess, class string) int {
	w, s := sc.w, c.S
	sid := s.Sid
	w.Cause(sid, "error")
	w.Cause(sid, "parse")
	w.Cause(sid, "peer")
	raw := func(body []byte, ct string) int {
		if c.Kind == "websocket" && c.ws != nil {
			c.ws.SendRaw(1, body)
			return len(body)
		}
		w.StartReq("post", s, ReqOpt{Method: "POST", Body: body, CType: ct})
		return len(body)
	}
	switch class {
	case "wrongdir":
		ty := "ping"
		if s.Proto == 3 {
			ty = "pong"
		}
		if c.Kind == "websocket" && c.ws != nil {
			c.ws.SendPkt(Pkt{Type: ty})
		} else {
			w.Post(s, []Pkt{{Type: ty}}, ReqOpt{})
		}
		return 2
	case "early-heartbeat":
		ty := "pong"
		if s.Proto == 3 {
			ty = "ping"
		}
		if c.Kind == "websocket" && c.ws != nil {
			c.ws.SendPkt(Pkt{Type: ty})
		} else {
			w.Post(s, []Pkt{{Type: ty}}, ReqOpt{})
		}
		return 2
	case "unknown-type":
		return raw([]byte("9zzz"), "")
	case "empty-packet":
		return raw([]byte(""), "")
	case "v3-trunc-len":
		return raw([]byte("10:4ab"), "")
	case "v3-inflated-len":
		return raw([]byte("999999:4ab"), "")
	case "v3-neg-len":
		return raw([]byte("-1:4ab:"), "")
	case "v3bin-garbage":
		if c.Kind == "websocket" {
			c.ws.SendRaw(2, []byte{9, 9, 9, 255, 1, 2})
			return 6
		}
		// moderate inflated binary length (the parser walks it unit by unit): bounded so that the step completes
		return raw([]byte{0, 9, 9, 9, 9, 255, 52, 97}, "application/octet-stream")
	case "bad-utf8":
		return raw([]byte{'4', 0xff, 0xfe, 0xc0, 0x80, 'x'}, "")
	case "bad-base64":
		return raw([]byte("b4###not-base64"), "")
	case "octet-v4":
		if c.Kind == "polling" {
			r := w.StartReq("post", s, ReqOpt{Method: "POST", Body: []byte{4, 1, 2}, CType: "application/octet-stream"})
			sc.settle()
			if r.Status == 0 { // never answered: the client gives up
				w.Abort(r)
			}
			return 3
		}
	case "odd-method":
		w.StartReq("other", s, ReqOpt{Method: []string{"PUT", "DELETE", "HEAD", "PATCH"}[sc.r.Intn(4)]})
		return 0
	case "huge-query":
		w.StartReq("poll", s, ReqOpt{Query: "x=" + strings.Repeat("A", 70000)})
		return 70000
	case "jsonp-garbage":
		if c.Kind == "polling" {
			w.StartReq("post", s, ReqOpt{Method: "POST", Body: []byte("d=%zz%"), CType: "application/x-www-form-urlencoded"})
			return 6
		}
	case "ws-binary-on-b64":
		if c.ws != nil {
			c.ws.SendRaw(2, []byte{4, 1, 2, 3})
			return 4
		}
	case "ws-empty":
		if c.ws != nil {
			c.ws.SendRaw(1, nil)
			c.ws.SendRaw(2, nil)
			return 0
		}
	case "ws-control":
		if c.ws != nil && c.ws.conn != nil {
			c.ws.wmu.Lock()
			c.ws.conn.WriteControl(9, []byte("x"), time.Time{})
			c.ws.conn.WriteControl(10, []byte("y"), time.Time{})
			c.ws.wmu.Unlock()
			return 2
		}
	case "ws-after-close":
		if c.ws != nil {
			c.ws.CloseFrame()
			c.ws.SendPkt(sc.w.ClientMsg(4, false, 0))
			c.dead = true
			return 8
		}
	case "post-after-close":
		if c.Kind == "polling" {
			w.Post(s, []Pkt{{Type: "close"}}, ReqOpt{})
			sc.settle()
			w.Post(s, []Pkt{w.ClientMsg(4, false, 0)}, ReqOpt{})
			w.StartReq("poll", s, ReqOpt{})
			c.dead = true
			return 8
		}
	case "eio-mismatch-upgrade":
		if c.Kind == "polling" {
			// candidate opened with the OTHER revision than the session's, then it follows the upgrade protocol and sends heartbeats
			other := &Sess{Proto: 7 - s.Proto, Sid: s.Sid}
			cand := w.DialWS(other, "", nil, nil)
			sc.settle()
			if !cand.closed {
				cand.SendPkt(Pkt{Type: "ping", Data: []byte("probe")})
				sc.settle()
				cand.SendPkt(Pkt{Type: "upgrade"})
				sc.settle()
				cand.SendPkt(Pkt{Type: "ping"})
				cand.SendPkt(Pkt{Type: "pong"})
			}
			c.dead = true
			return 12
		}
	case "probe-repeat":
		// a candidate that keeps probing (each probe is answered and restarts the upgrade check), then finishes or gives up
		if c.Kind == "polling" {
			cand := w.DialWS(s, "", nil, nil)
			sc.settle()
			for i := 0; i < 2+sc.r.Intn(3) && !cand.closed; i++ {
				cand.SendPkt(Pkt{Type: "ping", Data: []byte("probe")})
				sc.settle()
				w.g.Sleep(time.Duration(30+sc.r.Intn(100)) * time.Millisecond)
			}
			switch sc.r.Intn(3) {
			case 0:
				cand.SendPkt(Pkt{Type: "upgrade"})
				sc.settle()
				if so := w.Sock(sid); so != nil && so.Upgraded() && !cand.closed {
					c.Kind, c.ws = "websocket", cand
					cand.OnPkt = func(wc *WSClient, p Pkt) { sc.processPkts(c, []Pkt{p}, wc) }
				}
			case 1:
				cand.Drop()
			}
			sc.settle()
			return 20
		}
	case "probe-then-silence":
		if c.Kind == "polling" {
			cand := w.DialWS(s, "", nil, nil)
			sc.settle()
			cand.SendPkt(Pkt{Type: "ping", Data: []byte("probe")})
			sc.settle()
			w.g.Sleep(sc.cfg.PI/100 + 11*time.Second) // past the upgrade timeout
			sc.settle()
			return 7
		}
	case "wt-bad-handshake":
		// a WebTransport session whose first message is not a well-formed handshake packet
		firsts := []string{"0null", "0{}", `0{"sid":""}`, `0{"sid":123}`, "0[", "4hello", "", "0{\"sid\":\"nope\"}", "1", "\x00"}
		n := 0
		for _, f := range firsts {
			w.dialWTRaw(&Sess{Proto: 4, Sid: "x"}, f, nil)
			sc.settle()
			n += len(f)
		}
		return n
	case "bad-accept-encoding":
		// a malformed Accept-Encoding on the poll that finds a response large enough to be compressed waiting for it
		// (the header is parsed by the transport's writer goroutine, which no net/http recover protects)
		if c.Kind != "polling" {
			return 0
		}
		aes := []string{"gzip;q=", "gzip;q", ";q=0", "gzip;;q=0", ",,,", "gzip;q=abc", "gzip;q=-1", "gzip;q=1e999", "gzip; q = ", "\tgzip ;", ";", "=",
			"gzip;q=0.00000000000000000000000000001", "deflate;q=;br;q=", "br;q=\"0\"", "zstd;q=0;q=", "gzip;level=9;q=", strings.Repeat("gzip;q=,", 2000)}
		n, first := 0, sc.r.Intn(len(aes))
		for k := 0; k < 6; k++ {
			ae := aes[(first+k*3)%len(aes)]
			if c.poll != nil { // let the outstanding poll be answered first
				w.Send(sid, SendOpt{Size: 3})
				sc.settle()
			}
			w.Send(sid, SendOpt{Size: 1500 + sc.r.Intn(3000)})
			sc.settle()
			if c.poll != nil || c.dead || w.Sock(sid) == nil || w.Sock(sid).ReadyState() != "open" {
				break
			}
			c.poll = w.StartReq("poll", s, ReqOpt{Hdr: http.Header{"Accept-Encoding": []string{ae}}})
			sc.settle()
			n += len(ae)
		}
		return n
	case "bad-headers":
		// other client-controlled headers the server looks at
		hs := []http.Header{
			{"Content-Type": []string{""}}, {"Content-Type": []string{";;;"}}, {"Content-Type": []string{"application/octet-stream;" + strings.Repeat("x", 5000)}},
			{"Origin": []string{"null"}}, {"Origin": []string{strings.Repeat("a", 9000)}}, {"Cookie": []string{"io=" + strings.Repeat("=", 500)}},
			{"Content-Length": []string{"-5"}}, {"Connection": []string{"upgrade"}, "Upgrade": []string{"h2c"}}, {"User-Agent": []string{"\u2028;MSIE"}},
			{"Accept-Encoding": []string{"gzip"}, "Accept": []string{"\x00"}},
		}
		h := hs[sc.r.Intn(len(hs))]
		n := 0
		for _, v := range h {
			n += len(v[0])
		}
		if c.Kind == "polling" {
			w.StartReq("post", s, ReqOpt{Method: "POST", Body: []byte("4hdr"), Hdr: h})
		} else {
			w.StartReq("other", s, ReqOpt{Method: "GET", Hdr: h})
		}
		return n
	case "garbage-body":
		b := make([]byte, 64)
		sc.r.Read(b)
		return raw(b, "")
	case "double-colon":
		return raw([]byte("2:::4a"), "")
	case "many-packets":
		var ps []Pkt
		for i := 0; i < 200; i++ {
			ps = append(ps, Pkt{Type: "noop"})
		}
		if c.Kind == "polling" {
			w.Post(s, ps, ReqOpt{})
		}
		return 400
	}
	return 0
}

// sleepAlive advances time in slices, keeping the conformant clients alive (poll outstanding, pings answered).
func (sc *Script) sleepAlive(d time.Duration) {
	slice := sc.cfg.PT / 2
	if slice <= 0 {
		slice = time.Second
	}
	for d > 0 {
		for _, c := range sc.live() {
			if c.autoPong && c.Kind == "polling" && c.poll == nil {
				sc.doPoll(c)
			}
			if c.autoPong && c.S.Proto == 3 { // revision 3: the client is the one that pings
				if c.Kind == "polling" && len(c.posts) == 0 {
					c.posts = append(c.posts, sc.w.Post(c.S, []Pkt{{Type: "ping"}}, ReqOpt{}))
				} else if c.ws != nil && !c.ws.closed {
					c.ws.SendPkt(Pkt{Type: "ping"})
				}
			}
		}
		sc.settle()
		// every gate window is instantaneous: whoever parked while the clients were being kept alive is let go before time passes
		sc.w.g.ReleaseAll()
		sc.settle()
		step := min(slice, d)
		sc.w.g.Sleep(step)
		d -= step
		sc.settle()
	}
}

// canaryRoundTrip: a second session exchanges one message each way and must stay open.
func (sc *Script) canaryRoundTrip(can *cliSess) {
	if can == nil || can.S.Sid == "" {
		return
	}
	sid := can.S.Sid
	sc.w.Send(sid, SendOpt{Size: 9})
	if can.Kind == "polling" {
		if can.poll == nil {
			sc.doPoll(can)
		}
		sc.settle()
		can.posts = append(can.posts, sc.w.Post(can.S, []Pkt{sc.w.ClientMsg(7, false, 1)}, ReqOpt{}))
	} else if can.ws != nil {
		can.ws.SendPkt(sc.w.ClientMsg(7, false, 1))
	}
	sc.settle()
	if can.Kind == "polling" && can.poll == nil {
		sc.doPoll(can)
		sc.settle()
	}
	sc.w.Expect(sid, "open")
	sc.w.Expect(sid, "drained")
	sc.w.Expect(sid, "delivered")
}

func hostileScenario(name string, seed int64) Scenario {
	return Scenario{Name: name, Run: func(t *testing.T, rec *Rec, g *Gates) {
		r := rand.New(rand.NewSource(seed))
		cfg := EngCfg{PI: 25 * time.Second, PT: 20 * time.Second, EIO3: true, WT: true}
		w := newEngWorld(t, rec, g, cfg)
		sc := &Script{w: w, r: r, cfg: cfg, W: map[string]int{"ws-direct": 35, "wt-direct": 12, "jsonp": 15, "max-sessions": 9}}
		// the canary
		sc.newSession()
		sc.settle()
		can := sc.ss[0]
		sc.canaryRoundTrip(can)
		for i := 0; i < 4+r.Intn(5); i++ {
			sc.newSession()
			sc.settle()
			vic := sc.ss[len(sc.ss)-1]
			if vic.S.Sid == "" {
				continue
			}
			// phase: fresh | after some traffic | while upgrading | after the first ping
			switch r.Intn(4) {
			case 1:
				sc.doSend(vic)
				sc.doPoll(vic)
				sc.settle()
			case 2:
				sc.doCandOpen(vic)
				sc.settle()
			case 3:
				vic.autoPong = true
				sc.doPoll(vic)
				sc.sleepAlive(cfg.PI + time.Second)
			}
			class := hostileClasses[r.Intn(len(hostileClasses))]
			cpu0 := cpuNow()
			rec.Log("hostile", "sid", vic.S.Sid, "class", class, "proto", vic.S.Proto, "kind", vic.Kind)
			n := sc.hostile(vic, class)
			sc.settle()
			// a data request the server neither answers nor accepts (v4 + application/octet-stream is refused as
			// "invalid content" without a response, as upstream does): the client gives up
			w.mu.Lock()
			var hang []*Req
			for _, rq := range w.reqs {
				if rq.Kind == "post" && rq.Sess == vic.S && rq.Status == 0 && !rq.returned && !rq.aborted {
					hang = append(hang, rq)
				}
			}
			w.mu.Unlock()
			for _, rq := range hang {
				w.Abort(rq)
			}
			sc.settle()
			rec.Log("hostile.done", "sid", vic.S.Sid, "class", class, "bytes", n, "cpu_ms", int64((cpuNow()-cpu0)/time.Millisecond))
			w.Snapshot()
			sc.canaryRoundTrip(can)
		}
		sc.Drain()
		w.Finish()
	}}
}

// the one input known to make the parser spin (see known-findings.json): kept in a scenario of its own
func spinScenario(name string) Scenario {
	return Scenario{Name: name, Run: func(t *testing.T, rec *Rec, g *Gates) {
		cfg := EngCfg{EIO3: true}
		w := newEngWorld(t, rec, g, cfg)
		s, _ := w.Handshake(3, false, false, ReqOpt{})
		if s.Sid != "" {
			w.Cause(s.Sid, "parse")
			w.Cause(s.Sid, "error")
			rec.Log("hostile", "sid", s.Sid, "class", "v3bin-length-spin", "proto", 3, "kind", "polling")
			cpu0 := cpuNow()
			body := append([]byte{0, 9, 9, 9, 9, 9, 9, 9, 9, 9, 9, 255}, []byte("4abcdefg")...)
			w.StartReq("post", s, ReqOpt{Method: "POST", Body: body, CType: "application/octet-stream"})
			synctest.Wait()
			rec.Log("hostile.done", "sid", s.Sid, "class", "v3bin-length-spin", "bytes", len(body), "cpu_ms", int64((cpuNow()-cpu0)/time.Millisecond))
		}
		w.Finish()
	}}
}

// hswinScenario: a heartbeat packet (either direction) or a message that reaches a session while its handshaking goroutine is still
// inside the constructor - held at a server-level listener of the open packet's flush (S.flush: batch taken, nothing written yet;
// S.drain: open packet handed to the transport, the client can read it and answer) or right after the constructor
// (handshake.constructed). The session is "open" there, its reader goroutine (stream transports) is running, its heartbeat
// timers do not exist yet.
func hswinScenario(name string, proto int, kind, gate, ptype string) Scenario {
	return Scenario{Name: name, Run: func(t *testing.T, rec *Rec, g *Gates) {
		cfg := EngCfg{PI: 25 * time.Second, PT: 20 * time.Second, EIO3: true, WT: true}
		w := newEngWorld(t, rec, g, cfg)
		sc := &Script{w: w, r: rand.New(rand.NewSource(1)), cfg: cfg, W: map[string]int{}}
		sc.newSession() // the canary: polling, revision 4
		sc.settle()
		can := sc.ss[0]
		sc.canaryRoundTrip(can)
		g.Park(gate, true)
		s := &Sess{Proto: proto}
		c := &cliSess{S: s, Kind: kind, autoPong: true}
		var hs *Req
		switch kind {
		case "websocket":
			c.ws = w.DialWS(s, "", nil, func(wc *WSClient, p Pkt) { sc.processPkts(c, []Pkt{p}, wc) })
		case "webtransport":
			c.Kind = "websocket"
			c.ws = w.DialWT(s, func(wc *WSClient, p Pkt) { sc.processPkts(c, []Pkt{p}, wc) })
		default:
			hs = w.StartReq("handshake", s, ReqOpt{})
		}
		sc.settle()
		if hs != nil {
			for _, p := range hs.Pkts {
				if p.Type == "open" {
					s.Sid = openSid(p.Data)
				}
			}
		}
		sc.ss = append(sc.ss, c)
		if s.Sid != "" && g.Parked(gate) > 0 {
			w.Cause(s.Sid, "error")
			rec.Log("hostile", "sid", s.Sid, "class", "hs-window-"+ptype, "proto", proto, "kind", kind)
			cpu0 := cpuNow()
			pk := Pkt{Type: ptype}
			if ptype == "message" {
				pk = w.ClientMsg(5, false, 1)
			}
			if c.ws != nil {
				c.ws.SendPkt(pk)
			} else {
				w.Post(s, []Pkt{pk}, ReqOpt{})
			}
			sc.settle()
			rec.Log("hostile.done", "sid", s.Sid, "class", "hs-window-"+ptype, "bytes", 2, "cpu_ms", int64((cpuNow()-cpu0)/time.Millisecond))
		}
		g.Park(gate, false)
		g.ReleaseAll()
		sc.settle()
		w.Snapshot()
		sc.canaryRoundTrip(can)
		sc.Drain()
		w.Finish()
	}}
}

func hswinFamily() []Scenario {
	var out []Scenario
	for _, proto := range []int{4, 3} {
		for _, kind := range []string{"websocket", "polling", "webtransport"} {
			if kind == "webtransport" && proto == 3 {
				continue
			}
			for _, gate := range []string{"S.drain", "S.flush", "handshake.constructed"} {
				for _, pt := range []string{"pong", "ping", "message"} {
					out = append(out, hswinScenario(fmt.Sprintf("hswin_%d_%s_%s_%s", proto, kind, gate, pt), proto, kind, gate, pt))
				}
			}
		}
	}
	return out
}

func hostileFamily(seed int64, n int) []Scenario {
	var out []Scenario
	out = append(out, spinScenario(fmt.Sprintf("host%d_spin", seed)))
	out = append(out, hswinFamily()...)
	for i := 0; i < n; i++ {
		out = append(out, hostileScenario(fmt.Sprintf("host%d_%d", seed, i), seed*1000033+int64(i)))
	}
	return out
}

// ---------------------------------------------------------------- family "limit" (C10)

// countingBody streams up to total bytes of a valid v4 message payload and counts what the server consumed.
type countingBody struct {
	total    int
	pos      int
	mu       sync.Mutex
	consumed int
	head     []byte
}

func (b *countingBody) Read(p []byte) (int, error) {
	b.mu.Lock()
	defer b.mu.Unlock()
	if b.pos >= b.total {
		return 0, io.EOF
	}
	n := min(len(p), b.total-b.pos)
	for i := 0; i < n; i++ {
		if b.pos+i < len(b.head) {
			p[i] = b.head[b.pos+i]
		} else {
			p[i] = 'x'
		}
	}
	b.pos += n
	b.consumed += n
	return n, nil
}
func (b *countingBody) Close() error { return nil }

func limitScenario(name string, seed int64) Scenario {
	return Scenario{Name: name, Run: func(t *testing.T, rec *Rec, g *Gates) {
		r := rand.New(rand.NewSource(seed))
		limit := []int64{100, 1000, 5000}[r.Intn(3)]
		cfg := EngCfg{MaxBuf: limit, EIO3: true}
		w := newEngWorld(t, rec, g, cfg)
		sc := &Script{w: w, r: r, cfg: EngCfg{PI: 25 * time.Second, PT: 20 * time.Second}, W: map[string]int{"ws-direct": 0, "max-sessions": 9}}
		sc.newSession() // canary (polling)
		sc.settle()
		can := sc.ss[0]
		sizes := []int{int(limit) - 1, int(limit), int(limit) + 1, int(limit) * 10, int(limit)*300 + 7, int(limit)*2 - 1, int(limit) * 3, int(limit)*3 + 3}
		for i := 0; i < 6; i++ {
			size := sizes[r.Intn(len(sizes))]
			switch r.Intn(3) {
			case 0: // polling data request, declared or unknown length
				jsonp := r.Intn(3) == 0 // the JSONP flavour: the payload travels as the form field d
				s, _ := w.Handshake(4, jsonp, jsonp, ReqOpt{})
				if s.Sid == "" {
					continue
				}
				declared := r.Intn(2) == 0
				multi := r.Intn(3) == 0
				head := []byte("4zzzz") // an unnumbered message (the monitor only bounds its size)
				if multi {              // several small packets in front, then the big one
					head = append([]byte("4ab\x1e4cd\x1e"), head...)
				}
				ctype := ""
				if jsonp {
					head = append([]byte("d="), bytes.ReplaceAll(head, []byte("\x1e"), []byte("%1E"))...)
					ctype = "application/x-www-form-urlencoded"
				}
				if size < len(head) {
					size = len(head)
				}
				body := &countingBody{total: size, head: head}
				w.Cause(s.Sid, "error")
				rec.Log("c10.post", "sid", s.Sid, "size", size, "declared", declared, "limit", limit, "multi", multi, "jsonp", jsonp, "rid", w.reqN+1)
				ro := ReqOpt{Method: "POST", BodyRdr: body, NoCL: !declared, DeclLen: int64(size), CType: ctype}
				rq := w.StartReq("post", s, ro)
				sc.settle()
				rec.Log("c10.body", "rid", rq.ID, "consumed", body.consumed, "size", size, "limit", limit, "status", rq.Status)
				if rq.Status == 0 {
					w.Abort(rq)
				}
			default: // websocket frame, on a direct session or on an upgraded one
				var c *WSClient
				s := &Sess{Proto: 4}
				upgraded := r.Intn(2) == 0
				if upgraded {
					ps, _ := w.Handshake(4, false, false, ReqOpt{})
					if ps.Sid == "" {
						continue
					}
					s = ps
					c = w.DialWS(s, "", nil, nil)
					sc.settle()
					c.SendPkt(Pkt{Type: "ping", Data: []byte("probe")})
					sc.settle()
					c.SendPkt(Pkt{Type: "upgrade"})
					sc.settle()
				} else {
					c = w.DialWS(s, "", nil, nil)
					sc.settle()
				}
				if c.closed || s.Sid == "" {
					continue
				}
				w.Cause(s.Sid, "error")
				m := w.ClientMsg(size-1, r.Intn(2) == 0, 0)
				rec.Log("c10.frame", "sid", s.Sid, "size", len(m.Data)+1, "limit", limit, "upgraded", upgraded)
				c.SendPkt(m)
				sc.settle()
			}
			sc.canaryRoundTrip(can)
		}
		sc.Drain()
		w.Finish()
	}}
}

// limitEarlyScenario: the FIRST frame of a session opened directly on a stream transport is above the limit, and it arrives while
// the handshaking goroutine is still busy - held in the application's connection handler, or inside the constructor (flush /
// drain of the open packet). The limit must be in force from the moment the transport's reader runs.
func limitEarlyScenario(name, kind, point string, factor int) Scenario {
	return Scenario{Name: name, Run: func(t *testing.T, rec *Rec, g *Gates) {
		limit := int64(200)
		cfg := EngCfg{MaxBuf: limit, WT: true}
		w := newEngWorld(t, rec, g, cfg)
		sc := &Script{w: w, r: rand.New(rand.NewSource(1)), cfg: EngCfg{PI: 25 * time.Second, PT: 20 * time.Second}, W: map[string]int{}}
		sc.newSession() // canary (polling)
		sc.settle()
		can := sc.ss[0]
		if point == "L.connection" {
			w.Hook("connection", func(sid string, _ ...any) {
				if sid != can.S.Sid {
					g.at("L.connection", sid)
				}
			})
		}
		g.Park(point, true)
		s := &Sess{Proto: 4}
		c := &cliSess{S: s, Kind: "websocket", autoPong: true}
		if kind == "webtransport" {
			c.ws = w.DialWT(s, func(wc *WSClient, p Pkt) { sc.processPkts(c, []Pkt{p}, wc) })
		} else {
			c.ws = w.DialWS(s, "", nil, func(wc *WSClient, p Pkt) { sc.processPkts(c, []Pkt{p}, wc) })
		}
		sc.ss = append(sc.ss, c)
		sc.settle()
		g.Park(point, false)
		if !c.ws.closed {
			if s.Sid != "" {
				w.Cause(s.Sid, "error")
			}
			m := w.ClientMsg(int(limit)*factor, false, 0)
			rec.Log("c10.frame", "sid", s.Sid, "size", len(m.Data)+1, "limit", limit, "upgraded", false)
			c.ws.SendPkt(m)
			sc.settle()
		}
		g.ReleaseAll()
		sc.settle()
		c.dead = true
		sc.canaryRoundTrip(can)
		sc.Drain()
		w.Finish()
	}}
}

func limitFamily(seed int64, n int) []Scenario {
	var out []Scenario
	for _, kind := range []string{"websocket", "webtransport"} {
		for _, point := range []string{"L.connection", "S.flush", "S.drain", "handshake.constructed"} {
			for _, f := range []int{2, 40} {
				out = append(out, limitEarlyScenario(fmt.Sprintf("limitearly_%s_%s_x%d", kind, shortPoint(point), f), kind, point, f))
			}
		}
	}
	for i := 0; i < n; i++ {
		out = append(out, limitScenario(fmt.Sprintf("limit%d_%d", seed, i), seed*1000037+int64(i)))
	}
	return out
}

// ---------------------------------------------------------------- family "reent" (C18): listeners and callbacks that call Send / Close

var reentEvents = []string{"connection", "packetCreate", "flush", "drain", "srv.flush", "srv.drain", "packet", "message", "heartbeat", "upgrading", "upgrade", "close", "cb"}

func reentScenario(name, event, api, kind string) Scenario {
	return Scenario{Name: name, Run: func(t *testing.T, rec *Rec, g *Gates) {
		cfg := EngCfg{PI: 2 * time.Second, PT: time.Second, UT: 3 * time.Second}
		w := newEngWorld(t, rec, g, cfg)
		sc := &Script{w: w, r: rand.New(rand.NewSource(1)), cfg: cfg, W: map[string]int{}}
		fired := false
		w.Hook(event, func(sid string, _ ...any) {
			if fired {
				return
			}
			fired = true
			rec.Log("reent", "sid", sid, "event", event, "api", api)
			switch api {
			case "send":
				w.Send(sid, SendOpt{Size: 5, Cb: true})
			case "close":
				w.Cause(sid, "app")
				w.Close(sid, false)
			case "closenow":
				w.Cause(sid, "app")
				w.Close(sid, true)
			}
		})
		var c *cliSess
		if kind == "websocket" {
			s := &Sess{Proto: 4}
			c = &cliSess{S: s, Kind: "websocket", autoPong: true}
			c.ws = w.DialWS(s, "", nil, func(wc *WSClient, p Pkt) { sc.processPkts(c, []Pkt{p}, wc) })
		} else {
			s, _ := w.Handshake(4, false, false, ReqOpt{})
			c = &cliSess{S: s, Kind: "polling", autoPong: true}
		}
		sc.ss = append(sc.ss, c)
		sc.settle()
		if c.S.Sid == "" {
			w.Finish()
			return
		}
		sid := c.S.Sid
		// exercise every event source
		go w.Send(sid, SendOpt{Size: 4, Cb: true})
		sc.settle()
		sc.doPoll(c)
		sc.settle()
		if c.Kind == "polling" {
			c.posts = append(c.posts, w.Post(c.S, []Pkt{w.ClientMsg(4, false, 0)}, ReqOpt{}))
		} else {
			c.ws.SendPkt(w.ClientMsg(4, false, 0))
		}
		sc.settle()
		go w.Send(sid, SendOpt{Size: 4, Cb: true})
		sc.settle()
		sc.doPoll(c)
		sc.sleepAlive(cfg.PI + 100*time.Millisecond) // a ping and its pong (heartbeat event)
		sc.doPoll(c)
		sc.settle()
		if c.Kind == "polling" && (event == "upgrading" || event == "upgrade" || event == "close" || event == "cb" || event == "flush" || event == "drain") {
			cand := w.DialWS(c.S, "", nil, nil)
			sc.settle()
			cand.SendPkt(Pkt{Type: "ping", Data: []byte("probe")})
			sc.settle()
			sc.w.g.Sleep(150 * time.Millisecond)
			sc.settle()
			if c.poll == nil || c.poll.Status != 0 {
				cand.SendPkt(Pkt{Type: "upgrade"})
				sc.settle()
				if so := w.Sock(sid); so != nil && so.Upgraded() {
					c.Kind, c.ws = "websocket", cand
					cand.OnPkt = func(wc *WSClient, p Pkt) { sc.processPkts(c, []Pkt{p}, wc) }
				}
			}
		}
		go w.Send(sid, SendOpt{Size: 4, Cb: true})
		sc.settle()
		if event == "close" {
			go w.Close(sid, false)
			sc.settle()
		}
		sc.Drain()
		w.Finish()
	}}
}

func reentFamily() []Scenario {
	var out []Scenario
	for _, ev := range reentEvents {
		for _, api := range []string{"send", "close", "closenow"} {
			for _, kind := range []string{"polling", "websocket"} {
				out = append(out, reentScenario(fmt.Sprintf("reent_%s_%s_%s", ev, api, kind), ev, api, kind))
			}
		}
	}
	return out
}

// ---------------------------------------------------------------- family "grace" (C12): orderly close and shutdown, enumerated

// graceScenario: buffered (0..2 sends, no poll taken) x pending poll or not x transport x what follows the graceful Close.
func graceScenario(name string, kind string, buffered int, pendingPoll bool, follow string, fast bool) Scenario {
	return Scenario{Name: name, Run: func(t *testing.T, rec *Rec, g *Gates) {
		cfg := EngCfg{PI: 25 * time.Second, PT: 20 * time.Second}
		if fast {
			cfg = EngCfg{PI: 2 * time.Second, PT: time.Second}
		}
		w := newEngWorld(t, rec, g, cfg)
		sc := &Script{w: w, r: rand.New(rand.NewSource(1)), cfg: cfg, W: map[string]int{}}
		var c *cliSess
		if kind == "websocket" {
			s := &Sess{Proto: 4}
			c = &cliSess{S: s, Kind: "websocket"}
			c.ws = w.DialWS(s, "", nil, func(wc *WSClient, p Pkt) { sc.processPkts(c, []Pkt{p}, wc) })
		} else {
			s, _ := w.Handshake(4, false, false, ReqOpt{})
			c = &cliSess{S: s, Kind: "polling"}
		}
		sc.ss = append(sc.ss, c)
		sc.settle()
		// a second, idle session: shutdown must close it too
		s2, _ := w.Handshake(4, false, false, ReqOpt{})
		c2 := &cliSess{S: s2, Kind: "polling"}
		sc.ss = append(sc.ss, c2)
		if c.S.Sid == "" {
			w.Finish()
			return
		}
		sid := c.S.Sid
		if pendingPoll {
			sc.doPoll(c)
			sc.settle()
		}
		for i := 0; i < buffered; i++ {
			w.Send(sid, SendOpt{Size: 5})
		}
		sc.settle()
		w.Close(sid, false)
		sc.settle()
		switch follow {
		case "poll": // the client comes back: buffered data first, then the close packet
			for i := 0; i < 3 && !c.dead; i++ {
				sc.doPoll(c)
				sc.settle()
			}
			w.Expect(sid, "closed")
		case "silence": // the client never polls again: bounded by the close timeout / the next heartbeat deadline
			bound := 30 * time.Second
			if hb := cfg.PI + cfg.PT; hb > bound {
				bound = hb
			}
			w.g.Sleep(bound + 2*time.Second)
			sc.settle()
			w.Expect(sid, "closed")
		case "srvclose": // shutdown while the session is still closing gracefully
			w.ServerClose()
			sc.settle()
			w.Expect(sid, "closed")
			w.Expect(s2.Sid, "closed")
		case "closenow":
			w.Close(sid, true)
			sc.settle()
			w.Expect(sid, "closed")
		}
		w.Snapshot()
		sc.Drain()
		w.Finish()
	}}
}

// shutdownScenario: an engine attached to an HTTP server (the application's own handler next to it); sessions in every state a
// shutdown can meet - a pending poll, a stream transport, an idle polling session, a session closing gracefully with data the
// client has not fetched - and then the shutdown through the engine (Server.Close) or through the HTTP server it is attached
// to (HttpServer.Close, whose "close" event the engine listens for from Attach on - whether or not the HTTP server was ever
// told to listen by itself: here it is served as a plain http.Handler, as under httptest or an http.Server of the application).
func shutdownScenario(name, via string, closing bool) Scenario {
	return Scenario{Name: name, Run: func(t *testing.T, rec *Rec, g *Gates) {
		cfg := EngCfg{PI: 25 * time.Second, PT: 20 * time.Second}
		w := NewWorld(t, rec, g, WorldOpts{Opts: cfg.options(), Attach: true})
		w.LogCfg(cfg)
		sc := &Script{w: w, r: rand.New(rand.NewSource(1)), cfg: cfg, W: map[string]int{}}
		s1, _ := w.Handshake(4, false, false, ReqOpt{})
		c1 := &cliSess{S: s1, Kind: "polling"}
		sw := &Sess{Proto: 4}
		c2 := &cliSess{S: sw, Kind: "websocket"}
		c2.ws = w.DialWS(sw, "", nil, func(wc *WSClient, p Pkt) { sc.processPkts(c2, []Pkt{p}, wc) })
		s3, _ := w.Handshake(4, false, false, ReqOpt{})
		c3 := &cliSess{S: s3, Kind: "polling"}
		sc.ss = append(sc.ss, c1, c2, c3)
		sc.settle()
		if s1.Sid == "" || sw.Sid == "" || s3.Sid == "" {
			w.Finish()
			return
		}
		sc.doPoll(c1) // a poll pending at shutdown
		sc.settle()
		if closing {
			w.Send(s3.Sid, SendOpt{Size: 5})
			sc.settle()
			w.Close(s3.Sid, false)
			sc.settle()
		}
		if via == "http" {
			w.rec.Log("app.srvclose.call", "via", "http")
			w.Http.Close(nil)
			w.rec.Log("app.srvclose.ret", "via", "http")
		} else {
			w.ServerClose()
		}
		sc.settle()
		for _, s := range []*Sess{s1, sw, s3} {
			w.Expect(s.Sid, "closed")
		}
		w.Snapshot()
		sc.Drain()
		w.Finish()
	}}
}

func graceFamily() []Scenario {
	var out []Scenario
	for _, via := range []string{"server", "http"} {
		for _, closing := range []bool{false, true} {
			out = append(out, shutdownScenario(fmt.Sprintf("shutdown_%s_closing%v", via, closing), via, closing))
		}
	}
	for _, kind := range []string{"polling", "websocket"} {
		for buffered := 0; buffered <= 2; buffered++ {
			for _, pp := range []bool{false, true} {
				for _, follow := range []string{"poll", "silence", "srvclose", "closenow"} {
					for _, fast := range []bool{false, true} {
						if kind == "websocket" && (pp || follow == "poll") {
							continue
						}
						out = append(out, graceScenario(fmt.Sprintf("grace_%s_b%d_p%v_%s_f%v", kind, buffered, pp, follow, fast), kind, buffered, pp, follow, fast))
					}
				}
			}
		}
	}
	return out
}
