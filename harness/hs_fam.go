package harness

import (
	"net/url"
	"encoding/json"
	"fmt"
	"testing"
	"testing/synctest"
	"time"

	"github.com/zishang520/engine.io/v2/config"
	"github.com/zishang520/engine.io/v2/engine"
	"github.com/zishang520/engine.io/v2/types"
)

// ---- family "hs" (C06): one server per cell of Handshake.tla, three handshakes each.

func hsEnabled(en string) []string {
	switch en {
	case "p":
		return []string{"polling"}
	case "pw":
		return []string{"polling", "websocket"}
	case "w":
		return []string{"websocket"}
	case "pt":
		return []string{"polling", "webtransport"}
	}
	return []string{"polling", "websocket", "webtransport"}
}

func hsCell(t *testing.T, rec *Rec, g *Gates, scn string, cell map[string]any) {
	pi := time.Duration(cell["pi"].(float64)) * time.Millisecond
	pt := time.Duration(cell["pt"].(float64)) * time.Millisecond
	so := &config.ServerOptions{}
	so.SetPingInterval(pi)
	so.SetPingTimeout(pt)
	so.SetMaxHttpBufferSize(int64(cell["maxPayload"].(float64)))
	so.SetTransports(types.NewSet(hsEnabled(cell["enabled"].(string))...))
	so.SetAllowUpgrades(cell["allowUpgrades"].(bool))
	so.SetAllowEIO3(cell["eio3"].(bool))
	initial := cell["initial"].(string)
	initData := []byte("initial-packet-é")
	switch initial {
	case "text":
		so.SetInitialPacket(types.NewStringBufferString(string(initData)))
	case "binary":
		so.SetInitialPacket(types.NewBytesBuffer(append([]byte(nil), initData...)))
	}
	quiet := &Rec{start: rec.start}
	w := NewWorld(t, quiet, g, WorldOpts{Opts: so})
	nconn := 0
	lastSid := ""
	var lastSock engine.Socket
	w.Srv.On("connection", func(a ...any) { nconn++; lastSock = a[0].(engine.Socket); lastSid = lastSock.Id() })
	proto := 3
	eio := cell["eio"].(string)
	if eio == "4" {
		proto = 4
	}
	// a repeated EIO parameter: which value counts is the server's business, but the session must be of ONE revision
	repeated := eio == "3then4" || eio == "4then3"
	// (any other value - "5", "04", "40", "+4", "4.0", a word - is not the string "4": revision 3)
	eioQ := "&EIO=" + url.QueryEscape(eio)
	switch eio {
	case "absent":
		eioQ = ""
	case "3then4":
		eioQ, proto = "&EIO=3&EIO=4", 4
	case "4then3":
		eioQ, proto = "&EIO=4&EIO=3", 3
	}
	b64 := cell["b64"].(bool)
	for n := 1; n <= 3; n++ {
		nconn, lastSid, lastSock = 0, "", nil
		obs := map[string]any{"created": false, "nconn": 0, "firstIsOpen": false, "sidMatch": false, "pi": 0, "pt": 0, "maxPayload": 0,
			"upgrades": []string{}, "initial": "none", "initialIntact": true, "proto": 0, "payloadFormatOk": true, "serverPinged": false, "pongForPing": false, "status": 0, "fmtRev": 0}
		s := &Sess{Proto: proto, B64: b64}
		q := ""
		if eio == "absent" {
			q = "noeio=1"
		}
		var pkts []Pkt
		var ws *WSClient
		fmtOK := true
		collect := func(ps []Pkt) { pkts = append(pkts, ps...) }
		if cell["transport"] == "webtransport" {
			ws = w.DialWT(s, func(_ *WSClient, p Pkt) { collect([]Pkt{p}) })
			synctest.Wait()
		} else if cell["transport"] == "websocket" {
			qq := "transport=websocket" + eioQ
			if b64 {
				qq += "&b64=1"
			}
			ws = w.dialWSQuery(s, qq, nil, func(_ *WSClient, p Pkt) { collect([]Pkt{p}) })
			synctest.Wait()
			obs["status"] = ws.Status
		} else {
			qq := "transport=polling" + eioQ
			if b64 {
				qq += "&b64=1"
			}
			r := w.StartReq("handshake", s, ReqOpt{Query: qq})
			synctest.Wait()
			obs["status"] = r.Status
			if repeated && r.Status == 200 {
				// the revision whose payload format the handshake response is in: the client goes on in that revision
				for _, rev := range []int{4, 3} {
					s.Proto = rev
					pk, info := w.decodePollBody(s, r.Hdr, r.Body)
					if ok, _ := info["decodeOk"].(bool); ok && len(pk) > 0 && pk[0].Type == "open" {
						obs["fmtRev"] = rev
						r.Pkts, r.decodeOK = pk, true
						proto = rev
						break
					}
				}
				s.Proto = proto
			}
			collect(r.Pkts)
			fmtOK = fmtOK && (r.Status != 200 || r.decodeOK)
			for _, p := range r.Pkts {
				if p.Type == "open" {
					s.Sid = openSid(p.Data)
				}
			}
			if s.Sid != "" { // the initial packet, if any, comes with the next poll
				time.Sleep(time.Millisecond)
				r2 := w.StartReq("poll", s, ReqOpt{Query: qq + "&sid=" + s.Sid})
				w.Srv.Clients().Range(func(id string, so engine.Socket) bool { return true })
				synctest.Wait()
				if r2.Status == 0 { // nothing buffered: release the poll from the application side
					if lastSock != nil {
						lastSock.Send(types.NewStringBufferString("probe-"+fmt.Sprint(n)), nil, nil)
					}
					synctest.Wait()
				}
				collect(r2.Pkts)
				fmtOK = fmtOK && (r2.Status != 200 || r2.decodeOK)
			}
		}
		_ = q
		obs["created"], obs["nconn"] = nconn > 0, nconn
		if len(pkts) > 0 && pkts[0].Type == "open" {
			obs["firstIsOpen"] = true
			var op struct {
				Sid          string   `json:"sid"`
				Upgrades     []string `json:"upgrades"`
				PingInterval int      `json:"pingInterval"`
				PingTimeout  int      `json:"pingTimeout"`
				MaxPayload   int      `json:"maxPayload"`
			}
			if json.Unmarshal(pkts[0].Data, &op) == nil {
				obs["sidMatch"] = op.Sid != "" && op.Sid == lastSid
				obs["pi"], obs["pt"], obs["maxPayload"] = op.PingInterval, op.PingTimeout, op.MaxPayload
				if op.Upgrades != nil {
					obs["upgrades"] = op.Upgrades
				}
			}
			if len(pkts) > 1 && pkts[1].Type == "message" && string(pkts[1].Data) == string(initData) {
				obs["initial"] = "text"
				if pkts[1].Bin {
					obs["initial"] = "binary"
				}
			} else if len(pkts) > 1 && pkts[1].Type == "message" && len(pkts[1].Data) >= 6 && string(pkts[1].Data[:6]) == "probe-" {
				obs["initial"] = "none"
			} else if len(pkts) > 1 && pkts[1].Type == "message" {
				obs["initial"] = "other"
				obs["initialIntact"] = false
			}
		}
		if lastSock != nil {
			obs["proto"] = lastSock.Protocol()
			if repeated && ws != nil {
				proto = lastSock.Protocol() // no payload format to tell on a socket transport: the client follows the session
				s.Proto = proto
			}
			// heartbeat mode: does the server ping one interval after opening?
			pinged := false
			var seen []Pkt
			if ws != nil {
				ws.OnPkt = func(_ *WSClient, p Pkt) { seen = append(seen, p) }
				time.Sleep(pi + time.Millisecond)
				synctest.Wait()
			} else {
				qq := fmt.Sprintf("transport=polling%s&sid=%s", eioQ, s.Sid)
				if b64 {
					qq += "&b64=1"
				}
				r3 := w.StartReq("poll", s, ReqOpt{Query: qq})
				time.Sleep(pi + time.Millisecond)
				synctest.Wait()
				seen = r3.Pkts
				fmtOK = fmtOK && (r3.Status != 200 || r3.decodeOK)
				if r3.Status == 0 {
					lastSock.Send(types.NewStringBufferString("x"), nil, nil)
					synctest.Wait()
				}
			}
			for _, p := range seen {
				if p.Type == "ping" {
					pinged = true
				}
			}
			obs["serverPinged"] = pinged
			if proto == 3 { // revision 3: the client pings, the server must pong
				var got []Pkt
				if ws != nil {
					ws.OnPkt = func(_ *WSClient, p Pkt) { got = append(got, p) }
					ws.SendPkt(Pkt{Type: "ping"})
					synctest.Wait()
				} else {
					w.Post(s, []Pkt{{Type: "ping"}}, ReqOpt{})
					synctest.Wait()
					r4 := w.Poll(s)
					synctest.Wait()
					got = r4.Pkts
					if r4.Status == 0 {
						lastSock.Send(types.NewStringBufferString("y"), nil, nil)
						synctest.Wait()
					}
				}
				for _, p := range got {
					if p.Type == "pong" {
						obs["pongForPing"] = true
					}
				}
			}
		}
		obs["payloadFormatOk"] = fmtOK
		rec.Log("hs.cell", "scn", scn, "cell", cell, "n", n, "obs", obs)
	}
	w.quietEnd()
}

func hsScenarios(behs [][]map[string]any) []Scenario {
	var cells []map[string]any
	for _, b := range behs {
		cells = append(cells, b...)
	}
	var out []Scenario
	const chunk = 60
	for i := 0; i < len(cells); i += chunk {
		part := cells[i:min(i+chunk, len(cells))]
		name := fmt.Sprintf("hs%d", i/chunk)
		out = append(out, Scenario{Name: name, Run: func(t *testing.T, rec *Rec, g *Gates) {
			for _, c := range part {
				hsCell(t, rec, g, name, c)
			}
			time.Sleep(3 * time.Minute)
			synctest.Wait()
		}})
	}
	return out
}
