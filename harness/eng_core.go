package harness

import (
	"errors"
	"bufio"
	"bytes"
	"compress/flate"
	"compress/gzip"
	"compress/zlib"
	"context"
	b64pkg "encoding/base64"
	"encoding/json"
	"fmt"
	"io"
	"net"
	"net/http"
	"net/url"
	"sort"
	"strings"
	"sync"
	"testing"
	"testing/synctest"
	"time"

	"github.com/andybalholm/brotli"
	"github.com/gorilla/websocket"
	"github.com/klauspost/compress/zstd"
	"github.com/zishang520/engine.io-go-parser/packet"
	"github.com/zishang520/engine.io/v2/config"
	"github.com/zishang520/engine.io/v2/engine"
	"github.com/zishang520/engine.io/v2/transports"
	"github.com/zishang520/engine.io/v2/types"
	webtrans "github.com/zishang520/engine.io/v2/webtransport"
)

// ---- the engine "world": one real engine.io server inside a bubble, a protocol-conformant
// client actor talking to it over in-memory carriers, and listeners that record every
// observable event with the public state sampled at that instant.

type World struct {
	t       *testing.T
	rec     *Rec
	g       *Gates
	Srv     engine.Server
	Http    *types.HttpServer
	Handler http.Handler
	Path    string

	mu     sync.Mutex
	socks  map[string]engine.Socket
	order  []string
	reqN   int
	reqs   map[int]*Req
	conns  map[int]*WSClient
	connN  int
	midN   int
	sent   map[int][]byte // message id -> payload (server side sends)
	csent  map[int][]byte // client side submissions
	byData map[any]int    // packet data pointer -> message id
	hooks  map[string]func(sid string, args ...any)
	h3     *fakeH3
	appHit int
}

type WorldOpts struct {
	Opts    *config.ServerOptions
	Attach  bool
	AttachO any
}

func NewWorld(t *testing.T, rec *Rec, g *Gates, o WorldOpts) *World {
	w := &World{t: t, rec: rec, g: g, socks: map[string]engine.Socket{}, reqs: map[int]*Req{}, conns: map[int]*WSClient{},
		sent: map[int][]byte{}, csent: map[int][]byte{}, byData: map[any]int{}, hooks: map[string]func(string, ...any){}, Path: "/engine.io/"}
	var opt any
	if o.Opts != nil {
		opt = o.Opts
	}
	if o.Attach {
		w.Http = types.NewWebServer(http.HandlerFunc(func(rw http.ResponseWriter, r *http.Request) {
			w.mu.Lock()
			w.appHit++
			w.mu.Unlock()
			rw.WriteHeader(299)
			rw.Write([]byte("app"))
		}))
		w.Srv = engine.NewServer(opt)
		w.Srv.Attach(w.Http, o.AttachO)
		w.Handler = w.Http
	} else {
		w.Srv = engine.NewServer(opt)
		w.Handler = w.Srv
	}
	w.observeServer()
	return w
}

// Hook lets a scenario run code inside a listener (re-entrancy tests): key = event name.
func (w *World) Hook(ev string, f func(sid string, args ...any)) { w.hooks[ev] = f }

func (w *World) snap(s engine.Socket) []any {
	tr := ""
	wr := false
	if t := s.Transport(); t != nil {
		tr = t.Name()
		wr = t.Writable()
	}
	return []any{"sid", s.Id(), "rs", s.ReadyState(), "tr", tr, "upg", s.Upgrading(), "upgd", s.Upgraded(), "wr", wr}
}

func (w *World) pktDesc(p *packet.Packet) map[string]any {
	d := map[string]any{"ty": string(p.Type), "id": 0, "d": ""}
	w.mu.Lock()
	id, ok := w.byData[p.Data]
	w.mu.Unlock()
	if ok && p.Data != nil {
		d["id"] = id
	} else if p.Data != nil {
		if b, ok := p.Data.(types.BufferInterface); ok {
			s := string(b.Bytes())
			if len(s) > 40 {
				s = s[:40]
			}
			d["d"] = s
		} else if sr, ok := p.Data.(*strings.Reader); ok {
			d["d"] = fmt.Sprintf("reader(%d)", sr.Len())
		}
	}
	return d
}

func (w *World) observeServer() {
	w.Srv.On("connection", func(a ...any) {
		s := a[0].(engine.Socket)
		w.mu.Lock()
		w.socks[s.Id()] = s
		w.order = append(w.order, s.Id())
		w.mu.Unlock()
		trs := ""
		if tr := s.Transport(); tr != nil {
			trs = tr.ReadyState()
		}
		w.rec.Log("srv.connection", append(w.snap(s), "proto", s.Protocol(), "clients", w.Srv.Clients().Len(), "count", int64(w.Srv.ClientsCount()), "idok", reURLSafe.MatchString(s.Id()), "trs", trs)...)
		w.observeSocket(s)
		if h := w.hooks["connection"]; h != nil {
			h(s.Id())
		}
	})
	w.Srv.On("connection_error", func(a ...any) {
		em := a[0].(*types.ErrorMessage)
		w.rec.Log("srv.connection_error", "code", em.Code, "message", em.Message)
	})
	w.Srv.On("flush", func(a ...any) {
		s := a[0].(engine.Socket)
		w.rec.Log("srv.flush", "sid", s.Id(), "batch", w.batch(a[1].([]*packet.Packet)))
		if h := w.hooks["srv.flush"]; h != nil {
			h(s.Id())
		}
		w.g.at("S.flush", s.Id())
	})
	w.Srv.On("drain", func(a ...any) {
		s := a[0].(engine.Socket)
		w.rec.Log("srv.drain", "sid", s.Id())
		if h := w.hooks["srv.drain"]; h != nil {
			h(s.Id())
		}
		w.g.at("S.drain", s.Id()) // server-level listeners also see the flush of the open packet, inside the session's constructor
	})
	w.Srv.On("initial_headers", func(a ...any) {
		w.rec.Log("srv.initial_headers", "rid", w.ridOf(a[1].(*types.HttpContext)))
	})
	w.Srv.On("headers", func(a ...any) {
		w.rec.Log("srv.headers", "rid", w.ridOf(a[1].(*types.HttpContext)))
	})
}

func (w *World) ridOf(ctx *types.HttpContext) int {
	if ctx == nil || ctx.Request() == nil {
		return 0
	}
	if v := ctx.Request().Header.Get("X-Verif-Rid"); v != "" {
		var n int
		fmt.Sscanf(v, "%d", &n)
		return n
	}
	return 0
}

func (w *World) batch(ps []*packet.Packet) []any {
	out := make([]any, 0, len(ps))
	for _, p := range ps {
		out = append(out, w.pktDesc(p))
	}
	return out
}

var listenerGates = map[string]bool{"flush": true, "drain": true, "close": true, "upgrade": true, "upgrading": true, "message": true, "heartbeat": true}

func (w *World) observeSocket(s engine.Socket) {
	sid := s.Id()
	ev := func(name string, f func(a []any) []any) {
		s.On(types.EventName(name), func(a ...any) {
			kv := w.snap(s)
			if f != nil {
				kv = append(kv, f(a)...)
			}
			w.rec.Log("sock."+name, kv...)
			if h := w.hooks[name]; h != nil {
				h(sid, a...)
			}
			// listener gate: the goroutine emitting this event can be parked INSIDE the listener, i.e. in the
			// middle of the emitting function (flush: buffer taken, not yet handed over; close: state closed,
			// registry updated, later listeners such as the upgrade candidate's not yet run)
			if listenerGates[name] {
				w.g.at("L."+name, sid)
			}
		})
	}
	ev("packetCreate", func(a []any) []any { return []any{"p", w.pktDesc(a[0].(*packet.Packet))} })
	ev("flush", func(a []any) []any { return []any{"batch", w.batch(a[0].([]*packet.Packet))} })
	ev("drain", nil)
	ev("packet", func(a []any) []any {
		p := a[0].(*packet.Packet)
		d := map[string]any{"ty": string(p.Type), "id": 0, "d": ""}
		if b, ok := p.Data.(types.BufferInterface); ok && p.Type != packet.MESSAGE {
			d["d"] = string(b.Bytes())
		}
		return []any{"p", d}
	})
	ev("message", func(a []any) []any {
		var data []byte
		bin := false
		switch b := a[0].(type) {
		case *types.StringBuffer:
			data = b.Bytes()
		case *types.BytesBuffer:
			data, bin = b.Bytes(), true
		case types.BufferInterface:
			data = b.Bytes()
		}
		id, ok := w.matchClientMsg(data)
		return []any{"id", id, "bin", bin, "intact", ok, "len", len(data)}
	})
	ev("heartbeat", nil)
	ev("upgrading", func(a []any) []any { return []any{"to", a[0].(transports.Transport).Name()} })
	ev("upgrade", func(a []any) []any { return []any{"to", a[0].(transports.Transport).Name()} })
	ev("error", nil)
	ev("close", func(a []any) []any {
		return []any{"reason", a[0].(string), "clients", w.Srv.Clients().Len(), "count", int64(w.Srv.ClientsCount())}
	})
}

// ---------------------------------------------------------------- payload conventions

// MsgPayload builds the payload of message id: "<prefix><id>|" + filler of the given class.
func MsgPayload(prefix string, id int, size int, bin bool, class int) []byte {
	head := fmt.Sprintf("%s%d|", prefix, id)
	b := []byte(head)
	alpha := []string{"a", "é", "€", "😀", "\n", "\\n", ":", "7", "\"", "<", ">", " ", "&", " ", "\\"}
	i := 0
	for len(b) < size {
		if bin {
			b = append(b, byte(128+(id*7+i*13)%128), byte(i%256))
		} else {
			switch class {
			case 0:
				b = append(b, byte('a'+(id+i)%26))
			default:
				b = append(b, alpha[(id+i*class)%len(alpha)]...)
			}
		}
		i++
	}
	return b
}

func parseMsgID(prefix string, data []byte) int {
	if !bytes.HasPrefix(data, []byte(prefix)) {
		return 0
	}
	rest := data[len(prefix):]
	k := bytes.IndexByte(rest, '|')
	if k <= 0 || k > 9 {
		return 0
	}
	n := 0
	for _, c := range rest[:k] {
		if c < '0' || c > '9' {
			return 0
		}
		n = n*10 + int(c-'0')
	}
	return n
}

func (w *World) matchClientMsg(data []byte) (int, bool) {
	id := parseMsgID("c", data)
	w.mu.Lock()
	defer w.mu.Unlock()
	want, ok := w.csent[id]
	return id, ok && bytes.Equal(want, data)
}

func (w *World) matchServerMsg(data []byte) (int, bool) {
	id := parseMsgID("m", data)
	w.mu.Lock()
	defer w.mu.Unlock()
	want, ok := w.sent[id]
	return id, ok && bytes.Equal(want, data)
}

// ---------------------------------------------------------------- application side

type SendOpt struct {
	Size     int
	Bin      bool
	Class    int
	Cb       bool
	Compress *bool
	PreEnc   bool // WsPreEncodedFrame supplied (v4 packet text / bytes)
	Reader   bool // pass a plain *strings.Reader instead of a buffer
}

func (w *World) Sock(sid string) engine.Socket { w.mu.Lock(); defer w.mu.Unlock(); return w.socks[sid] }

// Send calls socket.Send with a fresh message; returns its id.
func (w *World) Send(sid string, o SendOpt) int {
	s := w.Sock(sid)
	if s == nil { // the application has not been handed this session (yet)
		return 0
	}
	w.mu.Lock()
	w.midN++
	id := w.midN
	if o.Size == 0 {
		o.Size = 4
	}
	p := MsgPayload("m", id, o.Size, o.Bin, o.Class)
	w.sent[id] = p
	var data io.Reader
	if o.Bin {
		data = types.NewBytesBuffer(append([]byte(nil), p...))
	} else if o.Reader {
		data = strings.NewReader(string(p))
	} else {
		data = types.NewStringBufferString(string(p))
	}
	w.byData[data] = id
	w.mu.Unlock()
	var opts *packet.Options
	if o.Compress != nil || o.PreEnc {
		opts = &packet.Options{Compress: o.Compress == nil || *o.Compress}
		if o.PreEnc {
			if o.Bin {
				opts.WsPreEncodedFrame = types.NewBytesBuffer(append([]byte(nil), p...))
			} else {
				opts.WsPreEncodedFrame = types.NewStringBufferString("4" + string(p))
			}
		}
	}
	var cb engine.SendCallback
	if o.Cb {
		cb = func(transports.Transport) {
			w.rec.Log("app.cb", append(w.snap(s), "id", id)...)
			if h := w.hooks["cb"]; h != nil {
				h(sid, id)
			}
			w.g.at("L.cb", sid) // a send callback that takes its time
		}
	}
	w.rec.Log("app.send.call", append(w.snap(s), "id", id, "bin", o.Bin, "len", len(p), "cb", o.Cb, "pre", o.PreEnc)...)
	s.Send(data, opts, cb)
	w.rec.Log("app.send.ret", append(w.snap(s), "id", id)...)
	return id
}

// Broadcast sends ONE message to several sessions the way a broadcasting application does: one packet.Options value
// carrying one pre-encoded frame, shared by all the sends (each send has its own data buffer).
func (w *World) Broadcast(sids []string, size int, bin bool) int {
	w.mu.Lock()
	w.midN++
	id := w.midN
	p := MsgPayload("m", id, size, bin, 0)
	w.sent[id] = p
	w.mu.Unlock()
	opts := &packet.Options{Compress: true}
	if bin {
		opts.WsPreEncodedFrame = types.NewBytesBuffer(append([]byte(nil), p...))
	} else {
		opts.WsPreEncodedFrame = types.NewStringBufferString("4" + string(p))
	}
	for _, sid := range sids {
		s := w.Sock(sid)
		if s == nil {
			continue
		}
		var data io.Reader
		if bin {
			data = types.NewBytesBuffer(append([]byte(nil), p...))
		} else {
			data = types.NewStringBufferString(string(p))
		}
		w.mu.Lock()
		w.byData[data] = id
		w.mu.Unlock()
		w.rec.Log("app.send.call", append(w.snap(s), "id", id, "bin", bin, "len", len(p), "cb", false, "pre", true)...)
		s.Send(data, opts, nil)
		w.rec.Log("app.send.ret", append(w.snap(s), "id", id)...)
	}
	return id
}

func (w *World) Close(sid string, discard bool) {
	s := w.Sock(sid)
	if s == nil {
		return
	}
	w.rec.Log("app.close.call", append(w.snap(s), "discard", discard)...)
	s.Close(discard)
	w.rec.Log("app.close.ret", w.snap(s)...)
}

func (w *World) ServerClose() {
	w.rec.Log("app.srvclose.call")
	w.Srv.Close()
	w.rec.Log("app.srvclose.ret")
}

// Cause records that the scenario is about to do something that may legitimately end session sid
// (class: peer | error | parse | app).
func (w *World) Cause(sid, class string) { w.rec.Log("cause", "sid", sid, "class", class) }

// Expect states an expectation at a quiescent point (what: drained | delivered | open | closed | upgraded | notupgrading).
func (w *World) Expect(sid, what string) {
	synctest.Wait()
	upg := false
	if s := w.Sock(sid); s != nil {
		upg = s.Upgrading()
	}
	w.rec.Log("expect", "sid", sid, "what", what, "upg", upg)
}

// logModelExpect records, next to the projection of the model state a replayed behaviour expects after a step, the same
// projection of the real session (conformance of the code to EioSession.tla, state by state).
func (w *World) logModelExpect(sid string, pollReq, postReq *Req, action any, exp map[string]any) {
	so := w.Sock(sid)
	if so == nil {
		return
	}
	tr, wr := "polling", false
	if t := so.Transport(); t != nil {
		if t.Name() != "polling" {
			tr = "stream"
		}
		wr = t.Writable()
	}
	_, inTable := w.Srv.Clients().Load(sid)
	poll := "none"
	w.mu.Lock()
	if r := pollReq; r != nil && !r.returned && !r.aborted && r.Status == 0 {
		poll = "pending"
	}
	w.mu.Unlock()
	nclose := w.rec.CountWhere(func(e Ev) bool { return e["e"] == "sock.close" && e["sid"] == sid })
	nrcvd := 0
	w.rec.mu.Lock()
	for _, e := range w.rec.events {
		switch e["e"] {
		case "cli.resp":
			if e["sid"] == sid {
				if pk, ok := e["pk"].([]any); ok {
					for _, p := range pk {
						if m, ok := p.(map[string]any); ok && m["ty"] == "message" {
							nrcvd++
						}
					}
				}
			}
		case "cli.ws.recv":
			if e["sid"] == sid {
				if m, ok := e["pk"].(map[string]any); ok && m["ty"] == "message" {
					nrcvd++
				}
			}
		}
	}
	w.rec.mu.Unlock()
	// the data request in progress (feature "dreq" of the model): what was written to it, whether its handler has returned
	dresp, dret := "", true
	w.mu.Lock()
	if r := postReq; r != nil {
		dret = r.returned
		switch {
		case r.Status == 200 && string(r.Body) == "ok":
			dresp = "ok"
		case r.Status != 0:
			dresp = fmt.Sprint(r.Status)
		}
	}
	w.mu.Unlock()
	act := map[string]any{"rs": so.ReadyState(), "tr": tr, "upgrading": so.Upgrading(), "upgraded": so.Upgraded(), "reg": inTable,
		"count": int64(w.Srv.ClientsCount()), "wr": wr, "poll": poll, "nclose": nclose, "nrcvd": nrcvd, "dresp": dresp, "dret": dret}
	w.rec.Log("model.expect", "sid", sid, "a", action, "exp", exp, "act", act)
}

// Snapshot logs registry and per-socket state at a quiescent instant.
func (w *World) Snapshot() {
	synctest.Wait()
	keys := w.Srv.Clients().Keys()
	sort.Strings(keys)
	w.mu.Lock()
	ids := append([]string(nil), w.order...)
	w.mu.Unlock()
	states := map[string]any{}
	live := 0
	reach := true
	for _, id := range ids {
		rs := w.Sock(id).ReadyState()
		states[id] = rs
		if rs != "closed" {
			live++
		}
	}
	for _, k := range keys {
		if s, ok := w.Srv.Clients().Load(k); !ok || s.Id() != k {
			reach = false
		}
	}
	pend := 0
	w.mu.Lock()
	for _, r := range w.reqs {
		if !r.returned {
			pend++
		}
	}
	w.mu.Unlock()
	w.rec.Log("snapshot", "clients", keys, "count", int64(w.Srv.ClientsCount()), "socks", states, "live", live, "reach", reach,
		"handlers", pend, "goroutines", len(GoroutinesInBubble()), "drained", false, "parked", w.g.ParkedTotal())
}

// ---------------------------------------------------------------- HTTP client side

type respRec struct {
	mu          sync.Mutex
	hdr         http.Header
	code        int
	body        bytes.Buffer
	nWriteHdr   int
	nWrite      int
	conn        net.Conn // for Hijack
	hijacked    bool
	snapshotHdr http.Header
	onWrite     func()
	gate        func()
	failWrites  int // so many of the next Write calls fail
	nFailed     int
}

func (r *respRec) Header() http.Header { return r.hdr }
func (r *respRec) WriteHeader(c int) {
	if r.gate != nil {
		r.gate() // a slow client connection: the writer can be parked inside the response write
	}
	r.mu.Lock()
	defer r.mu.Unlock()
	r.nWriteHdr++
	if r.code == 0 {
		r.code = c
		r.snapshotHdr = r.hdr.Clone()
	}
}
func (r *respRec) Write(p []byte) (int, error) {
	if r.gate != nil {
		r.gate()
	}
	r.mu.Lock()
	if r.code == 0 {
		r.code = 200
		r.snapshotHdr = r.hdr.Clone()
	}
	r.nWrite++
	if r.failWrites > 0 { // the peer is gone but nobody has noticed yet (or a write deadline passed): the write fails
		r.failWrites--
		r.nFailed++
		r.mu.Unlock()
		return 0, errors.New("write: broken pipe")
	}
	r.body.Write(p)
	f := r.onWrite
	r.mu.Unlock()
	if f != nil {
		f()
	}
	return len(p), nil
}
func (r *respRec) Hijack() (net.Conn, *bufio.ReadWriter, error) {
	if r.conn == nil {
		return nil, nil, fmt.Errorf("not hijackable")
	}
	r.hijacked = true
	return r.conn, bufio.NewReadWriter(bufio.NewReader(r.conn), bufio.NewWriter(r.conn)), nil
}

// Sess is the client's view of one session.
type Sess struct {
	Sid   string
	Proto int  // 3 or 4
	B64   bool // b64=1
	JSONP bool
	J     string
	Open  map[string]any
}

type Req struct {
	ID       int
	Kind     string // handshake poll post other
	Sess     *Sess
	rr       *respRec
	cancel   context.CancelFunc
	done     chan struct{}
	returned bool
	aborted  bool
	Pkts     []Pkt
	Status   int
	Body     []byte
	Hdr      http.Header
	decodeOK bool
}

type ReqOpt struct {
	Method  string
	Query   string // extra query string
	Path    string
	Hdr     http.Header
	Body    []byte
	NoCL    bool  // unknown content length
	DeclLen int64 // declared Content-Length for a BodyRdr (0 = leave as built)
	BodyRdr io.Reader
	CType   string
	RespHdr http.Header // headers an enclosing handler has already put on the response
	FailWrites int      // so many Write calls on the response fail (a peer that is gone unnoticed)
}

func (w *World) baseQuery(s *Sess) string {
	q := fmt.Sprintf("EIO=%d&transport=polling", s.Proto)
	if s.B64 {
		q += "&b64=1"
	}
	if s.JSONP {
		q += "&j=" + url.QueryEscape(s.J)
	}
	if s.Sid != "" {
		q += "&sid=" + url.QueryEscape(s.Sid)
	}
	return q
}

// StartReq launches one HTTP request against the handler in its own goroutine.
func (w *World) StartReq(kind string, s *Sess, o ReqOpt) *Req {
	w.mu.Lock()
	w.reqN++
	id := w.reqN
	w.mu.Unlock()
	path := o.Path
	if path == "" {
		path = w.Path
	}
	q := o.Query
	if s != nil && !strings.Contains(q, "transport=") {
		if q != "" {
			q = w.baseQuery(s) + "&" + q
		} else {
			q = w.baseQuery(s)
		}
	}
	method := o.Method
	if method == "" {
		method = "GET"
	}
	var body io.Reader
	if o.BodyRdr != nil {
		body = o.BodyRdr
	} else if o.Body != nil {
		body = bytes.NewReader(o.Body)
	}
	ctx, cancel := context.WithCancel(context.Background())
	target := "http://example.com" + path
	if q != "" {
		target += "?" + q
	}
	req, err := http.NewRequestWithContext(ctx, method, target, body)
	if err != nil {
		panic(err)
	}
	req.RequestURI = req.URL.RequestURI()
	req.RemoteAddr = "10.0.0.1:1234"
	if o.NoCL {
		req.ContentLength = -1
	} else if o.DeclLen > 0 {
		req.ContentLength = o.DeclLen
	}
	for k, v := range o.Hdr {
		req.Header[k] = v
	}
	req.Header.Set("X-Verif-Rid", fmt.Sprint(id))
	if o.CType != "" {
		req.Header.Set("Content-Type", o.CType)
	} else if method == "POST" {
		req.Header.Set("Content-Type", "text/plain;charset=UTF-8")
	}
	r := &Req{ID: id, Kind: kind, Sess: s, rr: &respRec{hdr: http.Header{}}, cancel: cancel, done: make(chan struct{})}
	for k, v := range o.RespHdr {
		r.rr.hdr[k] = append([]string(nil), v...)
	}
	r.rr.failWrites = o.FailWrites
	w.mu.Lock()
	w.reqs[id] = r
	w.mu.Unlock()
	sid := ""
	if s != nil {
		sid = s.Sid
	}
	w.rec.Log("cli.req", "rid", id, "kind", kind, "sid", sid, "method", method, "path", path, "q", q, "blen", len(o.Body))
	r.rr.onWrite = func() { w.logResp(r) }
	r.rr.gate = func() { w.g.at("rw.write", sid) }
	go func() {
		defer func() {
			if p := recover(); p != nil {
				// net/http recovers handler panics per connection; record and carry on
				w.rec.Log("handler.panic", "rid", id, "msg", fmt.Sprint(p))
			}
			w.mu.Lock()
			r.returned = true
			w.mu.Unlock()
			w.rec.Log("cli.ret", "rid", id, "kind", kind, "sid", sid, "responded", r.rr.code != 0)
			cancel() // what net/http does when the handler returns
			close(r.done)
		}()
		w.Handler.ServeHTTP(r.rr, req)
	}()
	return r
}

// logResp records the response at the instant the server wrote it.
func (w *World) logResp(r *Req) {
	rr := r.rr
	rr.mu.Lock()
	if rr.nWrite != 1 {
		n := rr.nWrite
		rr.mu.Unlock()
		w.rec.Log("cli.resp.extra", "rid", r.ID, "nwrite", n)
		return
	}
	code := rr.code
	body := append([]byte(nil), rr.body.Bytes()...)
	hdr := rr.snapshotHdr
	nwh := rr.nWriteHdr
	rr.mu.Unlock()
	r.Status, r.Body, r.Hdr = code, body, hdr
	kv := []any{"rid", r.ID, "kind", r.Kind, "status", code, "nwh", nwh, "blen", len(body),
		"ctype", hdr.Get("Content-Type"), "clen", hdr.Get("Content-Length"), "cenc", hdr.Get("Content-Encoding")}
	sid := ""
	if r.Sess != nil {
		sid = r.Sess.Sid
	}
	if code == 200 && r.Sess != nil && (r.Kind == "poll" || r.Kind == "handshake") {
		pk, info := w.decodePollBody(r.Sess, hdr, body)
		r.Pkts = pk
		r.decodeOK = info["decodeOk"].(bool)
		if r.Kind == "handshake" {
			for _, p := range pk {
				if p.Type == "open" {
					sid = openSid(p.Data)
				}
			}
		}
		kv = append(kv, "pk", w.descPkts(pk))
		for k, v := range info {
			kv = append(kv, k, v)
		}
	} else {
		s := string(body)
		if len(s) > 120 {
			s = s[:120]
		}
		kv = append(kv, "text", s, "pk", []any{})
	}
	code1 := -1
	if code >= 400 {
		var cm struct {
			Code    *int   `json:"code"`
			Message string `json:"message"`
		}
		if json.Unmarshal(body, &cm) == nil && cm.Code != nil {
			code1 = *cm.Code
			kv = append(kv, "message", cm.Message)
		}
	}
	kv = append(kv, "code", code1, "okAck", code == 200 && string(body) == "ok")
	// the session's real state at the instant of the response (the close EVENT may still be to come)
	rsNow := ""
	if so := w.Sock(sid); so != nil {
		rsNow = so.ReadyState()
	}
	kv = append(kv, "rsNow", rsNow)
	kv = append(kv, "sid", sid, "setcookie", hdr.Values("Set-Cookie"), "acao", hdr.Get("Access-Control-Allow-Origin"),
		"vary", hdr.Get("Vary"), "acac", hdr.Get("Access-Control-Allow-Credentials"))
	w.rec.Log("cli.resp", kv...)
}

func openSid(data []byte) string {
	s := string(data)
	i := strings.Index(s, `"sid":"`)
	if i < 0 {
		return ""
	}
	s = s[i+7:]
	j := strings.IndexByte(s, '"')
	if j < 0 {
		return ""
	}
	return s[:j]
}

func (w *World) descPkts(ps []Pkt) []any {
	out := make([]any, 0, len(ps))
	for _, p := range ps {
		d := map[string]any{"ty": p.Type, "id": 0, "bin": p.Bin, "intact": true, "d": "", "len": len(p.Data)}
		if p.Type == "message" {
			id, ok := w.matchServerMsg(p.Data)
			d["id"], d["intact"] = id, ok
		} else if len(p.Data) <= 40 {
			d["d"] = string(p.Data)
		}
		out = append(out, d)
	}
	return out
}

// decodePollBody undoes content coding, JSONP wrapper and payload framing with the independent codec.
func (w *World) decodePollBody(s *Sess, hdr http.Header, body []byte) ([]Pkt, map[string]any) {
	info := map[string]any{"decodeOk": true, "codingOk": true, "jsonpOk": true, "jdigits": "", "scriptSafe": true,
		"clenOk": hdr.Get("Content-Length") == fmt.Sprint(len(body)), "binBody": false}
	raw := body
	if enc := hdr.Get("Content-Encoding"); enc != "" {
		var rd io.Reader
		var err error
		switch enc {
		case "gzip":
			rd, err = gzip.NewReader(bytes.NewReader(body))
		case "deflate": // RFC 9110: "deflate" is the zlib format
			rd, err = zlib.NewReader(bytes.NewReader(body))
		case "br":
			rd = brotli.NewReader(bytes.NewReader(body))
		case "zstd":
			var zr *zstd.Decoder
			zr, err = zstd.NewReader(bytes.NewReader(body))
			if err == nil {
				defer zr.Close()
				rd = zr
			}
		default:
			err = fmt.Errorf("unknown coding")
		}
		if err == nil {
			raw, err = io.ReadAll(rd)
		}
		if err != nil {
			info["codingOk"] = false
			info["decodeOk"] = false
			// would raw DEFLATE have worked? (diagnostic only)
			if enc == "deflate" {
				if b, e2 := io.ReadAll(flate.NewReader(bytes.NewReader(body))); e2 == nil {
					info["rawDeflate"] = true
					raw = b
				} else {
					return nil, info
				}
			} else {
				return nil, info
			}
		}
	}
	info["rawLen"] = len(raw)
	ct := hdr.Get("Content-Type")
	isBin := strings.HasPrefix(ct, "application/octet-stream")
	info["binBody"] = isBin
	if s.JSONP {
		digits, payload, lit, ok := ParseJSONP(raw)
		info["jsonpOk"] = ok
		info["jdigits"] = digits
		info["scriptSafe"] = ScriptSafe(lit)
		if !ok {
			info["decodeOk"] = false
			return nil, info
		}
		raw = []byte(payload)
	}
	var pk []Pkt
	ok := true
	if s.Proto == 4 {
		pk = DecodeV4Payload(raw)
	} else if isBin {
		pk, ok = DecodeV3Binary(raw)
	} else {
		pk, ok = DecodeV3Text(string(raw))
	}
	for _, p := range pk {
		if p.Type == "error" {
			ok = false
		}
	}
	if !ok {
		info["decodeOk"] = false
	}
	return pk, info
}

// Handshake performs a polling handshake and returns the client's session view.
func (w *World) Handshake(proto int, b64, jsonp bool, extra ReqOpt) (*Sess, *Req) {
	s := &Sess{Proto: proto, B64: b64, JSONP: jsonp, J: "7"}
	r := w.StartReq("handshake", s, extra)
	synctest.Wait()
	for _, p := range r.Pkts {
		if p.Type == "open" {
			s.Sid = openSid(p.Data)
		}
	}
	return s, r
}

func (w *World) Poll(s *Sess) *Req { return w.StartReq("poll", s, ReqOpt{}) }

// Post submits packets as a data request.
func (w *World) Post(s *Sess, ps []Pkt, o ReqOpt) *Req {
	var body []byte
	ct := "text/plain;charset=UTF-8"
	hasBin := false
	for _, p := range ps {
		if p.Bin {
			hasBin = true
		}
	}
	switch {
	case s.Proto == 4:
		body = EncodeV4Payload(ps)
	case hasBin && !s.B64 && !s.JSONP:
		body = EncodeV3Binary(ps)
		ct = "application/octet-stream"
	default:
		body = []byte(EncodeV3Text(ps))
	}
	if s.JSONP {
		body = []byte("d=" + url.QueryEscape(JSONPEscapeBody(string(body))))
		ct = "application/x-www-form-urlencoded"
	}
	o.Method = "POST"
	if o.Body == nil {
		o.Body = body
	}
	if o.CType == "" {
		o.CType = ct
	}
	enc := "v4"
	switch {
	case s.JSONP:
		enc = "jsonp"
	case s.Proto == 3 && ct == "application/octet-stream":
		enc = "v3bin"
	case s.Proto == 3:
		enc = "v3text"
	}
	w.rec.Log("cli.post", "sid", s.Sid, "pk", w.descClientPkts(ps), "enc", enc)
	return w.StartReq("post", s, o)
}

func (w *World) descClientPkts(ps []Pkt) []any {
	out := make([]any, 0, len(ps))
	for _, p := range ps {
		d := map[string]any{"ty": p.Type, "id": 0, "bin": p.Bin, "d": ""}
		if p.Type == "message" {
			d["id"] = parseMsgID("c", p.Data)
		} else if len(p.Data) < 40 {
			d["d"] = string(p.Data)
		}
		out = append(out, d)
	}
	return out
}

// ClientMsg creates a client->server message packet with a fresh id.
func (w *World) ClientMsg(size int, bin bool, class int) Pkt {
	w.mu.Lock()
	defer w.mu.Unlock()
	w.midN++
	id := w.midN
	if size == 0 {
		size = 4
	}
	p := MsgPayload("c", id, size, bin, class)
	w.csent[id] = p
	return Pkt{Type: "message", Data: p, Bin: bin}
}

// Abort cancels a request's context (client went away).
func (w *World) Abort(r *Req) {
	w.rec.Log("cli.abort", "rid", r.ID, "kind", r.Kind)
	r.aborted = true
	r.cancel()
}

// ---------------------------------------------------------------- WebSocket client

type memConn struct {
	r, w   *half
	local  string
	closed bool
	mu     sync.Mutex
}

func (c *memConn) Read(p []byte) (int, error)  { return c.r.Read(p) }
func (c *memConn) Write(p []byte) (int, error) { return c.w.Write(p) }
func (c *memConn) Close() error {
	c.mu.Lock()
	c.closed = true
	c.mu.Unlock()
	c.w.Close()
	c.r.Fail(net.ErrClosed)
	return nil
}
func (c *memConn) LocalAddr() net.Addr              { return memAddr(c.local) }
func (c *memConn) RemoteAddr() net.Addr             { return memAddr("peer-of-" + c.local) }
func (c *memConn) SetDeadline(time.Time) error      { return nil }
func (c *memConn) SetReadDeadline(time.Time) error  { return nil }
func (c *memConn) SetWriteDeadline(time.Time) error { return nil }

func memPipe() (*memConn, *memConn) {
	a2b, b2a := newHalf(), newHalf()
	return &memConn{r: b2a, w: a2b, local: "client"}, &memConn{r: a2b, w: b2a, local: "server"}
}

type WSClient struct {
	ID     int
	Kind   string // websocket | webtransport
	Sess   *Sess
	conn   *websocket.Conn
	wt     *webtrans.Conn
	wtReq  *wtRequest
	raw    *memConn
	w      *World
	closed bool
	Err    string
	Status int
	wmu    sync.Mutex
	OnPkt  func(*WSClient, Pkt) // called from the read loop after the packet was logged

	refCode   int    // JSON code of an HTTP refusal of the upgrade request
	refMsg    string // its message
	closeText string // text of the close frame the server sent
	respHdr   http.Header
}

func jsonUnmarshal(b []byte, v any) error { return json.Unmarshal(b, v) }

// dialRaw opens a websocket with an arbitrary query string (routing/admission cells).
func (w *World) dialRaw(q string, hdr http.Header) *WSClient {
	return w.dialWSQuery(&Sess{Proto: 4}, q, hdr, nil)
}

// DialWS opens a WebSocket (handshake when s.Sid == "", upgrade candidate otherwise).
func (w *World) DialWS(s *Sess, extraQuery string, hdr http.Header, onPkt func(*WSClient, Pkt)) *WSClient {
	q := fmt.Sprintf("EIO=%d&transport=websocket", s.Proto)
	if s.B64 {
		q += "&b64=1"
	}
	if s.Sid != "" {
		q += "&sid=" + url.QueryEscape(s.Sid)
	}
	if extraQuery != "" {
		q += "&" + extraQuery
	}
	return w.dialWSQuery(s, q, hdr, onPkt)
}

func (w *World) dialWSQuery(s *Sess, q string, hdr http.Header, onPkt func(*WSClient, Pkt)) *WSClient {
	w.mu.Lock()
	w.connN++
	id := w.connN
	w.mu.Unlock()
	cc, sc := memPipe()
	c := &WSClient{ID: id, Kind: "websocket", Sess: s, raw: cc, w: w, OnPkt: onPkt}
	w.mu.Lock()
	w.conns[id] = c
	w.mu.Unlock()
	w.rec.Log("cli.ws.dial", "cid", id, "sid", s.Sid, "q", q)
	// server side: read the upgrade request from the connection and hand it to the handler
	go func() {
		br := bufio.NewReader(sc)
		req, err := http.ReadRequest(br)
		if err != nil {
			sc.Write([]byte("HTTP/1.1 400 Bad Request\r\nContent-Length: 0\r\n\r\n")) // what net/http answers to a malformed request
			sc.Close()
			return
		}
		ctx, cancel := context.WithCancel(context.Background())
		defer cancel()
		req = req.WithContext(ctx)
		req.RemoteAddr = "10.0.0.2:4321"
		rr := &respRec{hdr: http.Header{}, conn: sc}
		defer func() {
			if p := recover(); p != nil {
				w.rec.Log("handler.panic", "cid", id, "msg", fmt.Sprint(p))
			}
			if !rr.hijacked {
				// plain HTTP answer to the upgrade request: serialise it for the client
				code := rr.code
				if code == 0 {
					code = 200
				}
				resp := fmt.Sprintf("HTTP/1.1 %d %s\r\nContent-Length: %d\r\nContent-Type: %s\r\n\r\n", code, http.StatusText(code), rr.body.Len(), rr.hdr.Get("Content-Type"))
				sc.Write(append([]byte(resp), rr.body.Bytes()...))
				sc.Close()
			}
		}()
		w.Handler.ServeHTTP(rr, req)
	}()
	u, _ := url.Parse("ws://example.com" + w.Path + "?" + q)
	h := http.Header{}
	for k, v := range hdr {
		h[k] = v
	}
	conn, resp, err := websocket.NewClient(cc, u, h, 4096, 4096)
	if err != nil {
		c.closed = true
		c.Err = err.Error()
		body := ""
		if resp != nil {
			c.Status = resp.StatusCode
			b, _ := io.ReadAll(resp.Body)
			body = string(b)
			c.refCode, c.refMsg = jsonCodeMsg(b)
		}
		w.rec.Log("cli.ws.refused", "cid", id, "sid", s.Sid, "status", c.Status, "text", body)
		return c
	}
	c.conn = conn
	if resp != nil {
		c.respHdr = resp.Header
	}
	w.rec.Log("cli.ws.open", "cid", id, "sid", s.Sid)
	go c.readLoop()
	return c
}

// DialWT opens a WebTransport session through the fake HTTP/3 layer (a real webtransport.Session on the server side)
// and sends the Engine.IO handshake packet on its bidirectional stream: "0" for a new session, `0{"sid":..}` for an
// upgrade candidate of session s.
func (w *World) DialWT(s *Sess, onPkt func(*WSClient, Pkt)) *WSClient {
	return w.dialWTRaw(s, "", onPkt)
}

func (w *World) dialWTRaw(s *Sess, first string, onPkt func(*WSClient, Pkt)) *WSClient {
	w.mu.Lock()
	if w.h3 == nil {
		w.h3 = newFakeH3()
	}
	w.connN++
	id := w.connN
	w.mu.Unlock()
	c := &WSClient{ID: id, Kind: "webtransport", Sess: s, w: w, OnPkt: onPkt}
	w.mu.Lock()
	w.conns[id] = c
	w.mu.Unlock()
	q := "EIO=4&transport=webtransport"
	r := w.h3.newRequest("https://example.com"+w.Path+"?"+q, nil, true)
	c.wtReq = r
	w.rec.Log("cli.ws.dial", "cid", id, "sid", s.Sid, "q", q)
	go func() {
		defer func() {
			if p := recover(); p != nil {
				w.rec.Log("handler.panic", "cid", id, "msg", fmt.Sprint(p))
			}
			r.Cancel()
		}()
		w.Srv.OnWebTransportSession(types.NewHttpContext(r.RW, r.Req), w.h3.WT)
	}()
	c.wt = webtrans.NewConn(nil, r.Client, false, 0, 0, nil, nil, nil)
	if first == "" {
		first = "0"
		if s.Sid != "" {
			first = `0{"sid":"` + s.Sid + `"}`
		}
	}
	c.wt.WriteMessage(webtrans.TextMessage, []byte(first))
	// (the HTTP/3 layer accepts the session before the engine sees the handshake packet: not an admission by the engine)
	w.rec.Log("cli.wt.open", "cid", id, "sid", s.Sid)
	go c.readLoop()
	return c
}

func (c *WSClient) decode(mt int, data []byte) Pkt {
	if mt == websocket.BinaryMessage {
		if c.Sess.Proto == 3 {
			if len(data) == 0 || data[0] > 6 {
				return Pkt{Type: "error"}
			}
			return Pkt{Type: typeNames[data[0]], Data: data[1:], Bin: true}
		}
		return Pkt{Type: "message", Data: data, Bin: true}
	}
	if c.Sess.Proto == 3 && len(data) > 1 && data[0] == 'b' {
		p := decodeV4Text(append([]byte("b"), data[2:]...))
		p.Type = typeOf(data[1])
		return p
	}
	return decodeV4Text(data)
}

func (c *WSClient) readLoop() {
	w := c.w
	for {
		var mt int
		var data []byte
		var err error
		if c.conn != nil {
			mt, data, err = c.conn.ReadMessage()
		} else {
			var t int
			t, data, err = c.wt.ReadMessage()
			mt = websocket.TextMessage
			if t == webtrans.BinaryMessage {
				mt = websocket.BinaryMessage
			}
		}
		if err != nil {
			text, code := err.Error(), 0
			if ce, ok := err.(*websocket.CloseError); ok {
				text, code = ce.Text, ce.Code
			}
			c.wmu.Lock()
			c.closed = true
			c.closeText = text
			c.wmu.Unlock()
			w.rec.Log("cli.ws.closed", "cid", c.ID, "sid", c.Sess.Sid, "code", code, "text", text)
			return
		}
		p := c.decode(mt, data)
		if p.Type == "open" && c.Sess.Sid == "" {
			c.Sess.Sid = openSid(p.Data)
		}
		w.rec.Log("cli.ws.recv", "cid", c.ID, "sid", c.Sess.Sid, "pk", w.descPkts([]Pkt{p})[0])
		if c.OnPkt != nil {
			c.OnPkt(c, p)
		}
	}
}

// SendPkt writes one packet as one frame.
func (c *WSClient) SendPkt(p Pkt) error {
	w := c.w
	w.rec.Log("cli.ws.send", "cid", c.ID, "sid", c.Sess.Sid, "pk", w.descClientPkts([]Pkt{p})[0])
	var mt int
	var data []byte
	switch {
	case p.Bin && c.Sess.B64:
		mt = websocket.TextMessage
		if c.Sess.Proto == 3 {
			data = []byte("b" + string(typeDigit(p.Type)) + b64(p.Data))
		} else {
			data = []byte("b" + b64(p.Data))
		}
	case p.Bin:
		mt = websocket.BinaryMessage
		if c.Sess.Proto == 3 {
			data = append([]byte{typeDigit(p.Type) - '0'}, p.Data...)
		} else {
			data = p.Data
		}
	default:
		mt = websocket.TextMessage
		data = append([]byte{typeDigit(p.Type)}, p.Data...)
	}
	return c.SendRaw(mt, data)
}

func (c *WSClient) SendRaw(mt int, data []byte) error {
	c.wmu.Lock()
	defer c.wmu.Unlock()
	if c.conn != nil {
		return c.conn.WriteMessage(mt, data)
	}
	if c.wt == nil {
		return net.ErrClosed // the dial was refused
	}
	t := webtrans.TextMessage
	if mt == websocket.BinaryMessage {
		t = webtrans.BinaryMessage
	}
	return c.wt.WriteMessage(t, data)
}

// Drop closes the client's end abruptly (no close frame).
func (c *WSClient) Drop() {
	c.w.rec.Log("cli.ws.drop", "cid", c.ID, "sid", c.Sess.Sid)
	if c.raw != nil {
		c.raw.Close()
	}
	if c.wtReq != nil {
		c.wtReq.c2s.Close()
		c.wtReq.s2c.Fail(io.ErrClosedPipe)
		c.wtReq.reqStr.r.Close()
	}
}

// CloseFrame sends a WebSocket close frame.
func (c *WSClient) CloseFrame() {
	c.w.rec.Log("cli.ws.closeframe", "cid", c.ID, "sid", c.Sess.Sid)
	c.wmu.Lock()
	defer c.wmu.Unlock()
	if c.conn != nil {
		c.conn.WriteMessage(websocket.CloseMessage, websocket.FormatCloseMessage(websocket.CloseNormalClosure, ""))
	} else if c.wtReq != nil { // WebTransport has no close frame: the client closes its stream and the session
		c.wtReq.c2s.Close()
		c.wtReq.reqStr.r.Close()
	}
}

func b64(b []byte) string {
	return strings.TrimRight(stdB64(b), "")
}

// Finish tears the world down so the bubble can exit: close everything, let timers run out.
func (w *World) Finish() {
	w.g.StopParking()
	w.g.ReleaseAll()
	synctest.Wait()
	w.Snapshot()
	w.ServerClose()
	synctest.Wait()
	w.mu.Lock()
	conns := make([]*WSClient, 0, len(w.conns))
	for _, c := range w.conns {
		conns = append(conns, c)
	}
	reqs := make([]*Req, 0, len(w.reqs))
	for _, r := range w.reqs {
		reqs = append(reqs, r)
	}
	w.mu.Unlock()
	for _, c := range conns {
		if c.raw != nil {
			c.raw.Close()
		}
		if c.wtReq != nil {
			c.wtReq.c2s.Close()
			c.wtReq.reqStr.r.Close()
		}
	}
	synctest.Wait()
	for _, r := range reqs {
		r.cancel()
	}
	if w.h3 != nil {
		w.h3.shutdown()
	}
	time.Sleep(2 * time.Minute) // past closeTimeout, upgradeTimeout and heartbeat deadlines
	synctest.Wait()
	// every session is closed and every legitimate timeout has run out: a runtime timer that still fires now was left armed
	// (timers have no goroutine of their own that a census could find)
	firedBefore := w.g.Hits("timer.fired")
	time.Sleep(2 * time.Minute)
	synctest.Wait()
	timersFiring := w.g.Hits("timer.fired") - firedBefore
	var left []string
	for _, g := range GoroutinesInBubble() {
		if strings.Contains(g, "synctest.Run") || strings.Contains(g, "testingSynctestTest") {
			continue
		}
		fr := ""
		for _, ln := range strings.Split(g, "\n")[1:] {
			if !strings.HasPrefix(ln, "\t") && (strings.Contains(ln, "engine.io") || strings.Contains(ln, "harness") || strings.Contains(ln, "websocket")) {
				if i := strings.Index(ln, "("); i > 0 {
					ln = ln[:i]
				}
				fr += ln[strings.LastIndex(ln, "/")+1:] + " < "
			}
		}
		left = append(left, firstLine(g)+" "+fr)
	}
	kinds := make([]string, len(left))
	for i, g := range left {
		kinds[i] = "other"
		if strings.Contains(g, "utils.SetInterval.func") {
			kinds[i] = "interval"
		} else if strings.Contains(g, "utils.SetTimeout.func") {
			kinds[i] = "timeout"
		}
	}
	w.rec.Log("finish", "goroutines", len(left), "left", kinds, "stacks", left, "timersFiring", timersFiring)
}

func stdB64(b []byte) string { return base64Std.EncodeToString(b) }

var base64Std = b64pkg.StdEncoding
