package harness

import (
	"context"
	"fmt"
	"net/http"
	"strings"
	"testing"
	"testing/synctest"

	"github.com/zishang520/engine.io/v2/types"
)

// Family "hctx": behaviours of spec/HttpCtx.tla replayed on a real types.HttpContext: writes that succeed, writes that fail, a
// flush, the request's context cancelled; at every settled point (the watcher goroutine has nothing to do) the done flag, the
// WriteHeader calls that reached the ResponseWriter, the close events and the refused writes are compared with the model state.
func hctxReplayScenario(name string, beh []map[string]any) Scenario {
	return Scenario{Name: name, Run: func(t *testing.T, rec *Rec, g *Gates) {
		rr := &respRec{hdr: http.Header{}}
		cx, cancel := context.WithCancel(context.Background())
		req, _ := http.NewRequestWithContext(cx, "GET", "http://example.com/engine.io/?EIO=4&transport=polling", nil)
		hc := types.NewHttpContext(rr, req)
		nclose, refused := 0, 0
		hc.On("close", func(...any) { nclose++ })
		for _, a := range beh {
			switch a["a"] {
			case "write":
				ok, _ := a["ok"].(bool)
				rr.mu.Lock()
				rr.failWrites = 0
				if !ok {
					rr.failWrites = 1
				}
				rr.mu.Unlock()
				hc.SetStatusCode(200)
				if _, err := hc.Write([]byte("x")); err != nil && strings.Contains(err.Error(), "repeatedly") {
					refused++
				}
			case "flush":
				hc.Flush()
			case "cancel":
				cancel()
			case "watch": // the watcher goroutine runs whenever it can
			}
			synctest.Wait()
			rr.mu.Lock()
			nwh := rr.nWriteHdr
			rr.mu.Unlock()
			act := map[string]any{"done": hc.IsDone(), "nwh": nwh, "nclose": nclose, "refused": refused}
			if exp, ok := a["exp"].(map[string]any); ok {
				if st, _ := exp["settled"].(bool); st {
					rec.Log("hctx.expect", "a", a["a"], "exp", exp, "act", act)
				}
			} else { // a counterexample of a deviation (no model state to compare with): the property clauses alone
				rec.Log("hctx.expect", "a", a["a"], "exp", act, "act", act)
			}
		}
		cancel() // what net/http does when the handler returns
		synctest.Wait()
	}}
}

func hctxFamily(behs [][]map[string]any) []Scenario {
	var out []Scenario
	for i, b := range behs {
		out = append(out, hctxReplayScenario(fmt.Sprintf("hctx%d", i), b))
	}
	return out
}
