package harness

import (
	"fmt"
	"sort"
	"testing"
	"testing/synctest"
	"time"

	"github.com/zishang520/engine.io/v2/engine"
)

// ---- family "reg": behaviours of spec/Registry.tla (several sessions: handshake steps x close causes x lookups x
// shutdown) replayed into a real server. Each model step is one driver primitive; the handshaking goroutines are stepped
// through the yield points handshake.constructed / .stored / .listening, socket.OnClose through socket.onclose.tested.
// After every step the projection of the model state (table, count, ready states, close events) is compared with the
// real server ("reg.expect", judged by EioMon as NONCONF); every trace is also judged by the ordinary clauses (C03, C04, C12).

type regSess struct {
	id    string // model identity
	ws    bool   // opened directly over WebSocket (its peer can close before the handshake has finished)
	s     *Sess
	c     *WSClient
	hsReq *Req
	look  *Req
	poll  *Req
	sock  engine.Socket
	ncl   int
	nclOK bool // the harness's close listener was attached while the session had not closed: ncl is exact
}

func regReplayScenario(name string, beh []map[string]any) Scenario {
	return Scenario{Name: name, Run: func(t *testing.T, rec *Rec, g *Gates) {
		cfg := EngCfg{PI: 25 * time.Second, PT: 20 * time.Second}
		w := newEngWorld(t, rec, g, cfg)
		fine := false
		// a session whose peer closes before its handshake has finished must be on a transport that is live before the
		// session is registered: WebSocket. The others are polling sessions (they can be closed gracefully and linger).
		early := map[string]bool{}
		done := map[string]bool{}
		for _, a := range beh {
			i, _ := a["i"].(string)
			switch a["a"] {
			case "hs.listen", "hs.finish":
				fine = true
			case "hs.store":
				if !fine {
					done[i] = true
				}
			case "peerclose":
				if !done[i] {
					early[i] = true
				}
			}
			if a["a"] == "hs.finish" {
				done[i] = true
			}
			if f, _ := a["fine"].(bool); f {
				fine = true
			}
		}
		ss := map[string]*regSess{}
		var lookQ []string // sessions whose lookup is parked between the two loads, in park order (the log gate carries no id)
		bySid := func(sid string) string {
			for k, x := range ss {
				if x.s != nil && x.s.Sid == sid {
					return k
				}
			}
			return "?" + sid
		}
		settle := func() { synctest.Wait() }
		// sockets are learnt from the table (a session that closes before it is announced is never handed to the application)
		learn := func() {
			for _, x := range ss {
				if x.sock == nil && x.s != nil && x.s.Sid != "" {
					if so, ok := w.Srv.Clients().Load(x.s.Sid); ok {
						x.sock = so
						x.nclOK = so.ReadyState() != "closed"
						xx := x
						so.On("close", func(...any) { xx.ncl++ })
					}
				}
			}
		}
		for _, p := range []string{"handshake.constructed", "socket.onclose.tested"} {
			g.Park(p, true)
		}
		if fine {
			g.Park("handshake.stored", true)
			g.Park("handshake.listening", true)
		}
		for _, a := range beh {
			i, _ := a["i"].(string)
			x := ss[i]
			switch a["a"] {
			case "hs.build":
				x = &regSess{id: i, ws: early[i]}
				ss[i] = x
				if x.ws {
					x.s = &Sess{Proto: 4}
					x.c = w.DialWS(x.s, "", nil, nil)
				} else {
					x.s = &Sess{Proto: 4}
					x.hsReq = w.StartReq("handshake", x.s, ReqOpt{})
				}
				settle()
				if !x.ws {
					for _, p := range x.hsReq.Pkts {
						if p.Type == "open" {
							x.s.Sid = openSid(p.Data)
						}
					}
				}
			case "hs.store":
				g.ReleaseID("handshake.constructed", x.s.Sid)
			case "hs.listen":
				g.ReleaseID("handshake.stored", x.s.Sid)
			case "hs.finish":
				g.ReleaseID("handshake.listening", x.s.Sid)
			case "peerclose":
				w.Cause(x.s.Sid, "peer")
				w.Cause(x.s.Sid, "error")
				if x.ws {
					x.c.CloseFrame()
				} else {
					w.Post(x.s, []Pkt{{Type: "close"}}, ReqOpt{})
				}
			case "appclose":
				hard, _ := a["hard"].(bool)
				go w.Close(x.s.Sid, hard)
			case "fetchclose":
				x.poll = w.Poll(x.s)
			case "close.emit":
				g.ReleaseID("socket.onclose.tested", x.s.Sid)
			case "srv.all":
				// the shutdown as one step: its closes run through (sessions whose close is already parked stay parked)
				g.Park("socket.onclose.tested", false)
				w.ServerClose()
				settle()
				g.Park("socket.onclose.tested", true)
			case "look.verify":
				g.Park("log:setting new request for existing client", true)
				var r *Req
				if x.ws {
					r = w.StartReq("other", nil, ReqOpt{Query: "EIO=4&transport=polling&sid=" + x.s.Sid})
				} else {
					r = w.StartReq("other", nil, ReqOpt{Method: "POST", Query: "EIO=4&transport=polling&sid=" + x.s.Sid, Body: []byte("6")})
				}
				settle()
				g.Park("log:setting new request for existing client", false)
				found := r.Status == 0 // parked between the two loads
				if r.Status != 0 {
					c, _ := jsonCodeMsg(r.Body)
					found = !(r.Status == 400 && c == 1) // (a WebSocket session named on polling: code 3, it was found)
				} else {
					lookQ = append(lookQ, i)
				}
				x.look = r
				rec.Log("reg.look", "i", i, "step", "verify", "found", found, "exp", a["found"], "status", r.Status)
			case "look.handle":
				for k, q := range lookQ {
					if q == i {
						g.ReleaseNth("log:setting new request for existing client", k)
						lookQ = append(lookQ[:k], lookQ[k+1:]...)
						break
					}
				}
				settle()
				if r := x.look; r != nil && !x.ws {
					c, _ := jsonCodeMsg(r.Body)
					rec.Log("reg.look", "i", i, "step", "handle", "found", !(r.Status == 400 && c == 1), "exp", a["found"], "status", r.Status)
				}
			}
			settle()
			learn()
			if exp, ok := a["exp"].(map[string]any); ok {
				var tb []string
				for _, k := range w.Srv.Clients().Keys() {
					tb = append(tb, bySid(k))
				}
				sort.Strings(tb)
				if tb == nil {
					tb = []string{}
				}
				rsm, ncl := map[string]any{}, map[string]any{}
				for k, v := range ss {
					if v.sock != nil {
						rsm[k] = v.sock.ReadyState()
						if v.nclOK {
							ncl[k] = v.ncl
						}
					}
				}
				rec.Log("reg.expect", "a", a["a"], "i", i, "exp", exp, "act", map[string]any{"table": tb, "count": int64(w.Srv.ClientsCount()), "rs": rsm, "nclose": ncl})
			}
		}
		g.StopParking()
		g.ReleaseAll()
		settle()
		// the clients of sessions still closing fetch their close packets; then a quiet snapshot
		for _, x := range ss {
			if !x.ws && x.sock != nil && x.sock.ReadyState() == "closing" {
				w.Poll(x.s)
			}
		}
		settle()
		w.Snapshot()
		w.Finish()
	}}
}

func regFamily(behs [][]map[string]any) []Scenario {
	var out []Scenario
	for i, b := range behs {
		out = append(out, regReplayScenario(fmt.Sprintf("reg%d", i), b))
	}
	return out
}
