package harness

import (
	"bytes"
	"encoding/base64"
	"encoding/json"
	"fmt"
	"regexp"
	"strconv"
	"strings"
	"unicode/utf16"
	"unicode/utf8"
)

// Independent client-side codec, written from the engine.io-protocol text (v3 and v4),
// NOT calling engine.io-go-parser.

// Pkt is a decoded Engine.IO packet.
type Pkt struct {
	Type string // open close ping pong message upgrade noop | error (undecodable)
	Data []byte
	Bin  bool
}

var typeNames = []string{"open", "close", "ping", "pong", "message", "upgrade", "noop"}

func typeOf(c byte) string {
	if c >= '0' && c <= '6' {
		return typeNames[c-'0']
	}
	return "error"
}

func typeDigit(t string) byte {
	for i, n := range typeNames {
		if n == t {
			return byte('0' + i)
		}
	}
	return '?'
}

// decodeV4Packet: "<type digit><data>" or "b<base64>" for binary messages.
func decodeV4Text(s []byte) Pkt {
	if len(s) == 0 {
		return Pkt{Type: "error"}
	}
	if s[0] == 'b' {
		d, err := base64.StdEncoding.DecodeString(string(s[1:]))
		if err != nil {
			return Pkt{Type: "error"}
		}
		return Pkt{Type: "message", Data: d, Bin: true}
	}
	return Pkt{Type: typeOf(s[0]), Data: append([]byte(nil), s[1:]...)}
}

// DecodeV4Payload: packets separated by 0x1e.
func DecodeV4Payload(b []byte) []Pkt {
	if len(b) == 0 {
		return nil
	}
	var out []Pkt
	for _, part := range bytes.Split(b, []byte{0x1e}) {
		out = append(out, decodeV4Text(part))
	}
	return out
}

func EncodeV4Payload(ps []Pkt) []byte {
	var parts [][]byte
	for _, p := range ps {
		if p.Bin {
			parts = append(parts, []byte("b"+base64.StdEncoding.EncodeToString(p.Data)))
		} else {
			parts = append(parts, append([]byte{typeDigit(p.Type)}, p.Data...))
		}
	}
	return bytes.Join(parts, []byte{0x1e})
}

func utf16Len(s string) int {
	n := 0
	for _, r := range s {
		if r == utf8.RuneError {
			n++
			continue
		}
		n += len(utf16.Encode([]rune{r}))
	}
	return n
}

// DecodeV3Text: "<len>:<packet>" repeated, len in UTF-16 code units; "b<type><base64>" for binary.
func DecodeV3Text(s string) ([]Pkt, bool) {
	var out []Pkt
	for len(s) > 0 {
		i := strings.IndexByte(s, ':')
		if i <= 0 {
			return out, false
		}
		n, err := strconv.Atoi(s[:i])
		if err != nil || n < 0 {
			return out, false
		}
		s = s[i+1:]
		// take n UTF-16 units
		units, j := 0, 0
		for j < len(s) && units < n {
			r, sz := utf8.DecodeRuneInString(s[j:])
			if r >= 0x10000 {
				units += 2
			} else {
				units++
			}
			j += sz
		}
		if units != n {
			return out, false
		}
		body := s[:j]
		s = s[j:]
		if len(body) == 0 {
			continue
		}
		if body[0] == 'b' {
			if len(body) < 2 {
				return out, false
			}
			d, err := base64.StdEncoding.DecodeString(body[2:])
			if err != nil {
				return out, false
			}
			out = append(out, Pkt{Type: typeOf(body[1]), Data: d, Bin: true})
		} else {
			out = append(out, Pkt{Type: typeOf(body[0]), Data: []byte(body[1:])})
		}
	}
	return out, true
}

// DecodeV3Binary: <0|1><length digits as bytes 0..9><0xff><packet>; string packets are "binary strings"
// (one byte per UTF-16 unit < 256 ... the v3 js client reads each byte as a char code), binary packets
// start with the type as a byte 0..6.
func DecodeV3Binary(b []byte) ([]Pkt, bool) {
	var out []Pkt
	for len(b) > 0 {
		isString := b[0] == 0
		if b[0] > 1 {
			return out, false
		}
		b = b[1:]
		n := 0
		k := 0
		for ; k < len(b) && b[k] != 0xff; k++ {
			if b[k] > 9 || k > 10 {
				return out, false
			}
			n = n*10 + int(b[k])
		}
		if k >= len(b) {
			return out, false
		}
		b = b[k+1:]
		if isString {
			// n = JS string length; the bytes are the UTF-8 encoding of a string whose chars are the
			// bytes of the UTF-8 encoding of the real text (utf8 "double encoding" of engine.io v3)
			units, j := 0, 0
			var raw []byte
			for j < len(b) && units < n {
				r, sz := utf8.DecodeRune(b[j:])
				if r == utf8.RuneError && sz == 1 {
					return out, false
				}
				raw = append(raw, byte(r))
				units++
				j += sz
			}
			if units != n {
				return out, false
			}
			b = b[j:]
			if len(raw) == 0 {
				continue
			}
			out = append(out, Pkt{Type: typeOf(raw[0]), Data: raw[1:]})
		} else {
			if n > len(b) {
				return out, false
			}
			body := b[:n]
			b = b[n:]
			if len(body) == 0 {
				continue
			}
			t := "error"
			if body[0] <= 6 {
				t = typeNames[body[0]]
			}
			out = append(out, Pkt{Type: t, Data: append([]byte(nil), body[1:]...), Bin: true})
		}
	}
	return out, true
}

func EncodeV3Text(ps []Pkt) string {
	var sb strings.Builder
	for _, p := range ps {
		var body string
		if p.Bin {
			body = "b" + string(typeDigit(p.Type)) + base64.StdEncoding.EncodeToString(p.Data)
		} else {
			body = string(typeDigit(p.Type)) + string(p.Data)
		}
		fmt.Fprintf(&sb, "%d:%s", utf16Len(body), body)
	}
	return sb.String()
}

// EncodeV3Binary for XHR2 clients: binary payload when some packet is binary.
func EncodeV3Binary(ps []Pkt) []byte {
	var out []byte
	for _, p := range ps {
		if p.Bin {
			body := append([]byte{typeDigit(p.Type) - '0'}, p.Data...)
			out = append(out, 1)
			for _, c := range strconv.Itoa(len(body)) {
				out = append(out, byte(c-'0'))
			}
			out = append(out, 0xff)
			out = append(out, body...)
		} else {
			body := append([]byte{typeDigit(p.Type)}, p.Data...)
			// string packets: each byte of the UTF-8 text becomes one char, the char string is UTF-8 encoded
			var enc []byte
			for _, c := range body {
				enc = utf8.AppendRune(enc, rune(c))
			}
			out = append(out, 0)
			for _, c := range strconv.Itoa(len(body)) {
				out = append(out, byte(c-'0'))
			}
			out = append(out, 0xff)
			out = append(out, enc...)
		}
	}
	return out
}

var reJSONP = regexp.MustCompile(`(?s)^___eio\[(\d*)\]\((.*)\);$`)

// ParseJSONP splits a JSONP poll response into the index digits and the decoded string literal.
// ok is false when the body does not have the exact form ___eio[<digits>](<one JSON string literal>);
func ParseJSONP(body []byte) (digits string, payload string, literal string, ok bool) {
	m := reJSONP.FindSubmatch(body)
	if m == nil {
		return "", "", "", false
	}
	lit := string(m[2])
	var s string
	dec := json.NewDecoder(strings.NewReader(lit))
	if err := dec.Decode(&s); err != nil {
		return string(m[1]), "", lit, false
	}
	if dec.More() || strings.TrimSpace(lit[dec.InputOffset():]) != "" {
		return string(m[1]), s, lit, false
	}
	if len(lit) == 0 || lit[0] != '"' {
		return string(m[1]), s, lit, false
	}
	return string(m[1]), s, lit, true
}

// ScriptSafe: the literal embeds in a <script> block without ending it or breaking the JS string.
func ScriptSafe(lit string) bool {
	return !strings.ContainsAny(lit, "<>") && !strings.Contains(lit, " ") && !strings.Contains(lit, " ")
}

// JSONPEscapeBody: how engine.io-client's JSONP transport escapes newlines in the form field d.
func JSONPEscapeBody(payload string) string {
	s := strings.ReplaceAll(payload, `\n`, `\\n`)
	s = strings.ReplaceAll(s, "\n", `\n`)
	return s
}
