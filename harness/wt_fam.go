package harness

import (
	"bytes"
	"encoding/binary"
	"errors"
	"fmt"
	"io"
	"math/rand"
	"strings"
	"sync"
	"testing"
	"testing/synctest"
	"time"

	"github.com/quic-go/quic-go"
	webtrans "github.com/zishang520/engine.io/v2/webtransport"
	"github.com/zishang520/webtransport-go"
)

// ---- family "wtw" (C13, C14): write scripts (cells enumerated by TLC from
// WTFrame.tla) executed on a real webtransport.Conn over an in-memory stream; the
// wire bytes are captured and read back through a second Conn under several
// fragmentations. Family "wtr" (C15, C14 decoder): byte streams fed to the reader.

// memStream is a webtransport.Stream over byte buffers.
type memStream struct {
	mu      sync.Mutex
	w       bytes.Buffer
	r       io.Reader
	onWrite func(p []byte) // called before the bytes are appended (may block: gate)
}

func (s *memStream) Write(p []byte) (int, error) {
	if s.onWrite != nil {
		s.onWrite(p)
	}
	s.mu.Lock()
	defer s.mu.Unlock()
	return s.w.Write(p)
}
func (s *memStream) Read(p []byte) (int, error) {
	if s.r == nil {
		return 0, io.EOF
	}
	return s.r.Read(p)
}
func (s *memStream) Close() error                             { return nil }
func (s *memStream) StreamID() quic.StreamID                  { return 4 }
func (s *memStream) CancelWrite(webtransport.StreamErrorCode) {}
func (s *memStream) CancelRead(webtransport.StreamErrorCode)  {}
func (s *memStream) SetWriteDeadline(time.Time) error         { return nil }
func (s *memStream) SetReadDeadline(time.Time) error          { return nil }
func (s *memStream) SetDeadline(time.Time) error              { return nil }
func (s *memStream) Bytes() []byte {
	s.mu.Lock()
	defer s.mu.Unlock()
	return append([]byte(nil), s.w.Bytes()...)
}

// fragReader hands out a byte slice in pieces.
type fragReader struct {
	data  []byte
	pos   int
	sizes func(remaining int) int
	errAt int // inject err when pos reaches errAt (>=0)
	err   error
	// withData: the last bytes come together with io.EOF (or with the injected error), as a QUIC stream does on FIN
	withData bool
	// transient: the failure is reported once (a read timeout), after which the stream would go on delivering
	transient bool
}

func (f *fragReader) Read(p []byte) (int, error) {
	if f.errAt >= 0 && f.pos >= f.errAt {
		if f.transient {
			f.errAt = -1
		}
		return 0, f.err
	}
	if f.pos >= len(f.data) {
		return 0, io.EOF
	}
	n := f.sizes(len(f.data) - f.pos)
	if n > len(p) {
		n = len(p)
	}
	if n > len(f.data)-f.pos {
		n = len(f.data) - f.pos
	}
	if f.errAt >= 0 && f.pos+n > f.errAt {
		n = f.errAt - f.pos
	}
	if n <= 0 {
		n = 1
		if f.errAt >= 0 && f.pos >= f.errAt {
			return 0, f.err
		}
	}
	copy(p, f.data[f.pos:f.pos+n])
	f.pos += n
	if f.withData {
		if f.errAt >= 0 && f.pos >= f.errAt {
			return n, f.err
		}
		if f.pos >= len(f.data) {
			return n, io.EOF
		}
	}
	return n, nil
}

// lifoPool is a BufferPool shared between connections.
type lifoPool struct {
	mu sync.Mutex
	st []any
}

func (p *lifoPool) Get() any {
	p.mu.Lock()
	defer p.mu.Unlock()
	if len(p.st) == 0 {
		return nil
	}
	v := p.st[len(p.st)-1]
	p.st = p.st[:len(p.st)-1]
	return v
}
func (p *lifoPool) Put(v any) { p.mu.Lock(); p.st = append(p.st, v); p.mu.Unlock() }

// payload bytes for message number i: deterministic, full byte range.
func wtPayload(seed int64, n int) []byte {
	b := make([]byte, n)
	r := rand.New(rand.NewSource(seed))
	r.Read(b)
	return b
}

type wireFrame struct {
	Hdr     []int `json:"hdr"`
	Len     int   `json:"len"`
	payload []byte
	Short   bool `json:"short"` // stream ended inside this frame
}

// splitWire is the independent frame splitter (from the protocol text).
func splitWire(b []byte) []wireFrame {
	var out []wireFrame
	for i := 0; i < len(b); {
		l7 := int(b[i] & 0x7f)
		hl := 1
		if l7 == 126 {
			hl = 3
		} else if l7 == 127 {
			hl = 9
		}
		if i+hl > len(b) {
			out = append(out, wireFrame{Hdr: ints(b[i:]), Short: true})
			break
		}
		n := uint64(l7)
		if l7 == 126 {
			n = uint64(binary.BigEndian.Uint16(b[i+1:]))
		} else if l7 == 127 {
			n = binary.BigEndian.Uint64(b[i+1:])
		}
		f := wireFrame{Hdr: ints(b[i : i+hl])}
		i += hl
		if n > uint64(len(b)-i) {
			f.Len = len(b) - i
			f.Short = true
			f.payload = b[i:]
			out = append(out, f)
			break
		}
		f.Len = int(n)
		f.payload = b[i : i+int(n)]
		i += int(n)
		out = append(out, f)
	}
	return out
}

func ints(b []byte) []int {
	o := make([]int, len(b))
	for i, v := range b {
		o[i] = int(v)
	}
	return o
}

type wtCell struct {
	Bin    bool   `json:"bin"`
	Api    string `json:"api"`
	Chunks []int  `json:"chunks"`
	Server bool   `json:"server"`
	Geom   int    `json:"geom"`
}

func cellFrom(m map[string]any) wtCell {
	c := wtCell{Bin: m["bin"].(bool), Api: m["api"].(string), Server: m["server"].(bool), Geom: int(m["geom"].(float64))}
	for _, x := range m["chunks"].([]any) {
		c.Chunks = append(c.Chunks, int(x.(float64)))
	}
	return c
}

type chunkReader struct {
	data    []byte
	chunks  []int
	eofWith bool // the last data is returned together with io.EOF (allowed by the io.Reader contract)
}

func (c *chunkReader) Read(p []byte) (int, error) {
	for len(c.chunks) > 0 && c.chunks[0] == 0 {
		c.chunks = c.chunks[1:]
	}
	if len(c.chunks) == 0 {
		return 0, io.EOF
	}
	n := c.chunks[0]
	if n > len(p) {
		n = len(p)
	}
	copy(p, c.data[:n])
	c.data = c.data[n:]
	c.chunks[0] -= n
	if c.eofWith && len(c.data) == 0 {
		c.chunks = nil
		return n, io.EOF
	}
	return n, nil
}

// writeCell performs one write script on conn; returns the payload written and an error string.
func writeCell(conn *webtrans.Conn, c wtCell, seed int64) (payload []byte, errs string) {
	total := 0
	for _, n := range c.Chunks {
		total += n
	}
	payload = wtPayload(seed, total)
	if !c.Bin { // text messages: keep bytes arbitrary too; framing must not care
	}
	mt := webtrans.TextMessage
	if c.Bin {
		mt = webtrans.BinaryMessage
	}
	var err error
	switch c.Api {
	case "message":
		err = conn.WriteMessage(mt, payload)
	case "prepared":
		var pm *webtrans.PreparedMessage
		pm, err = webtrans.NewPreparedMessage(mt, payload)
		if err == nil {
			err = conn.WritePreparedMessage(pm)
		}
	case "writer", "string", "readfrom", "readfromeof":
		var w io.WriteCloser
		w, err = conn.NextWriter(mt)
		if err != nil {
			break
		}
		rest := payload
		switch c.Api {
		case "writer":
			for _, n := range c.Chunks {
				if _, err = w.Write(rest[:n]); err != nil {
					break
				}
				rest = rest[n:]
			}
		case "string":
			sw := w.(io.StringWriter)
			for _, n := range c.Chunks {
				if _, err = sw.WriteString(string(rest[:n])); err != nil {
					break
				}
				rest = rest[n:]
			}
		case "readfrom", "readfromeof":
			_, err = w.(io.ReaderFrom).ReadFrom(&chunkReader{data: payload, chunks: append([]int(nil), c.Chunks...), eofWith: c.Api == "readfromeof"})
		}
		if err == nil {
			err = w.Close()
		}
	}
	if err != nil {
		errs = err.Error()
	}
	return
}

type rbMsg struct {
	Bin    bool `json:"bin"`
	Len    int  `json:"len"`
	Intact bool `json:"intact"`
}

// readBack reads all messages from wire under the given fragmentation; want = expected payloads in order.
func readBack(wire []byte, mode string, seed int64, want [][]byte, readBuf int, limit ...int64) (msgs []rbMsg, errs string, pan string) {
	defer func() {
		if r := recover(); r != nil {
			pan = fmt.Sprint(r)
		}
	}()
	r := rand.New(rand.NewSource(seed))
	fr := &fragReader{data: wire, errAt: -1}
	switch mode {
	case "all":
		fr.sizes = func(rem int) int { return rem }
	case "one":
		fr.sizes = func(int) int { return 1 }
	case "hdrcut": // first header byte alone, then the rest in big pieces
		first := true
		fr.sizes = func(rem int) int {
			if first {
				first = false
				return 1
			}
			first = r.Intn(3) == 0
			return 1 + r.Intn(5000)
		}
	default:
		fr.sizes = func(rem int) int { return 1 + r.Intn(1+r.Intn(9000)) }
	}
	st := &memStream{r: fr}
	conn := webtrans.NewConn(nil, st, false, readBuf, 0, nil, nil, nil)
	if len(limit) > 0 && limit[0] > 0 {
		conn.SetReadLimit(limit[0]) // a per-message limit that no message of the sequence exceeds
	}
	for i := 0; i < 10000; i++ {
		var mt int
		var p []byte
		var err error
		if i%2 == 0 {
			mt, p, err = conn.ReadMessage()
		} else {
			var rd io.Reader
			mt, rd, err = conn.NextReader()
			if err == nil {
				buf := make([]byte, 1+r.Intn(700))
				for {
					n, e := rd.Read(buf)
					p = append(p, buf[:n]...)
					if e == io.EOF {
						break
					}
					if e != nil {
						err = e
						break
					}
				}
			}
		}
		if err != nil {
			errs = err.Error()
			break
		}
		m := rbMsg{Bin: mt == webtrans.BinaryMessage, Len: len(p)}
		if len(msgs) < len(want) {
			m.Intact = bytes.Equal(p, want[len(msgs)])
		}
		msgs = append(msgs, m)
	}
	return
}

func wtwScenario(name string, cells []wtCell, pool bool, seed int64) Scenario {
	return Scenario{Name: name, Run: func(t *testing.T, rec *Rec, g *Gates) {
		st := &memStream{}
		var bp webtrans.BufferPool
		if pool {
			bp = &lifoPool{}
		}
		server := cells[0].Server
		conn := webtrans.NewConn(nil, st, server, 0, cells[0].Geom, bp, nil, nil)
		var want [][]byte
		var wire [][]wireFrame
		var concatOk []bool
		var werrs []string
		pan := ""
		func() {
			defer func() {
				if r := recover(); r != nil {
					pan = fmt.Sprint(r)
				}
			}()
			for i, c := range cells {
				before := len(st.Bytes())
				p, e := writeCell(conn, c, seed+int64(i)*7919)
				want = append(want, p)
				werrs = append(werrs, e)
				fs := splitWire(st.Bytes()[before:])
				var cat []byte
				for _, f := range fs {
					cat = append(cat, f.payload...)
				}
				wire = append(wire, fs)
				concatOk = append(concatOk, bytes.Equal(cat, p))
			}
		}()
		all := st.Bytes()
		rb := map[string]any{}
		rbErr := map[string]string{}
		for _, mode := range []string{"all", "one", "hdrcut", "rand"} {
			if mode == "one" && len(all) > 20000 {
				continue
			}
			for _, rbuf := range []int{0, 16} {
				if rbuf == 16 && (mode == "one" || len(all) > 20000) {
					continue
				}
				key := fmt.Sprintf("%s/%d", mode, rbuf)
				m, e, p := readBack(all, mode, seed, want, rbuf)
				if m == nil {
					m = []rbMsg{}
				}
				rb[key] = m
				if p != "" {
					pan = "readback " + key + ": " + p
				}
				if e != "" {
					rbErr[key] = e
				}
			}
		}
		// the read limit is a limit per message: a sequence whose messages are each within it is read whatever it adds up to
		if maxLen := func() (m int64) {
			for _, p := range want {
				m = max(m, int64(len(p)))
			}
			return
		}(); len(want) >= 2 && maxLen > 0 && pan == "" {
			m, e, p := readBack(all, "rand", seed, want, 0, maxLen)
			if m == nil {
				m = []rbMsg{}
			}
			rb["limit/0"] = m
			if p != "" {
				pan = "readback limit/0: " + p
			}
			if e != "" {
				rbErr["limit/0"] = e
			}
		}
		cs := make([]any, len(cells))
		for i, c := range cells {
			cs[i] = c
		}
		rec.Log("wt.seq", "cells", cs, "pool", pool, "wire", wire, "concatOk", concatOk, "werrs", werrs,
			"rb", rb, "rbErr", rbErr, "panic", pan, "wireLen", len(all))
	}}
}

// pool-sharing scenario: two connections share one LIFO pool; A's final stream write is held
// while B writes a whole message; each peer must still read its own message.
func wtPoolShare(name string, seed int64, lenA, lenB int) Scenario {
	return Scenario{Name: name, Run: func(t *testing.T, rec *Rec, g *Gates) {
		pool := &lifoPool{}
		hold := make(chan struct{})
		entered := make(chan struct{}, 8)
		stA := &memStream{}
		stB := &memStream{}
		stA.onWrite = func([]byte) { entered <- struct{}{}; <-hold }
		a := webtrans.NewConn(nil, stA, true, 0, 0, pool, nil, nil)
		b := webtrans.NewConn(nil, stB, true, 0, 0, pool, nil, nil)
		pa, pb := wtPayload(seed, lenA), wtPayload(seed+1, lenB)
		doneA := make(chan error, 1)
		go func() { doneA <- a.WriteMessage(webtrans.BinaryMessage, pa) }()
		<-entered
		eb := b.WriteMessage(webtrans.TextMessage, pb)
		close(hold)
		ea := <-doneA
		synctest.Wait()
		ma, _, _ := readBack(stA.Bytes(), "all", seed, [][]byte{pa}, 0)
		mb, _, _ := readBack(stB.Bytes(), "all", seed, [][]byte{pb}, 0)
		if ma == nil {
			ma = []rbMsg{}
		}
		if mb == nil {
			mb = []rbMsg{}
		}
		rec.Log("wt.pool", "lenA", lenA, "lenB", lenB, "rbA", ma, "rbB", mb, "errA", fmt.Sprint(ea), "errB", fmt.Sprint(eb))
	}}
}

func wtwScenarios(behs [][]map[string]any, seed int64, nRandom int) []Scenario {
	var out []Scenario
	var cells []wtCell
	for _, b := range behs { // each "behaviour" is a single-element list holding {cell, frames}
		for _, x := range b {
			cells = append(cells, cellFrom(x["cell"].(map[string]any)))
		}
	}
	for i, c := range cells {
		out = append(out, wtwScenario(fmt.Sprintf("cell%d", i), []wtCell{c}, i%3 == 0, seed+int64(i)))
	}
	// sequences of cells on one connection (same role and geometry), pool on/off
	r := rand.New(rand.NewSource(seed))
	for i := 0; i < nRandom && len(cells) > 0; i++ {
		c0 := cells[r.Intn(len(cells))]
		seq := []wtCell{c0}
		for k := 0; k < 1+r.Intn(3); k++ {
			for tries := 0; tries < 50; tries++ {
				c := cells[r.Intn(len(cells))]
				if c.Server == c0.Server && c.Geom == c0.Geom {
					seq = append(seq, c)
					break
				}
			}
		}
		out = append(out, wtwScenario(fmt.Sprintf("seq%d_%d", seed, i), seq, r.Intn(2) == 0, seed*7+int64(i)))
	}
	for i, l := range [][2]int{{10, 10}, {300, 5}, {5, 300}, {4096, 4096}, {70000, 100}} {
		out = append(out, wtPoolShare(fmt.Sprintf("poolshare%d", i), seed+int64(i), l[0], l[1]))
	}
	return out
}

// ---------------------------------------------------------------- reader family

type rdOp struct {
	Op     string `json:"op"`             // next | read | stale
	Res    string `json:"res"`            // text | binary | ok | eof | err
	N      int    `json:"n"`              // bytes returned
	Err    string `json:"err"`            // error class: "", unexpected, limit, eof, injected, other
	Errs   string `json:"errs"`           // error string (stickiness = same string)
	Intact bool   `json:"intact"`         // bytes equal the stream's payload at that position
	Want   int    `json:"want,omitempty"` // read: size of the buffer offered
}

var errInjected = errors.New("injected stream failure")

func errClass(err error) string {
	switch {
	case err == nil:
		return ""
	case err == io.EOF:
		return "eof"
	case errors.Is(err, webtrans.ErrReadLimit):
		return "limit"
	case errors.Is(err, errInjected) || strings.Contains(err.Error(), "injected"):
		return "injected"
	}
	var ce *webtrans.CloseError
	if errors.As(err, &ce) && ce.Code == webtrans.CloseAbnormalClosure && strings.Contains(ce.Text, "unexpected EOF") {
		return "unexpected"
	}
	return "other"
}

type rdCase struct {
	Name    string
	Stream  []byte
	Limit   int64
	ErrAt   int
	Pattern string // message | partial | none | stale
	Frag    string
	Seed    int64
}

// runReader drives the reader over the case's stream; closer is told when the session gets closed.
func runReader(c rdCase, newConn func(st *memStream) (*webtrans.Conn, func() bool)) (ops []rdOp, pan string, closed bool, streamRead int) {
	r := rand.New(rand.NewSource(c.Seed))
	fr := &fragReader{data: c.Stream, errAt: c.ErrAt, err: errInjected}
	frag := c.Frag
	if strings.HasSuffix(frag, "+tr") {
		fr.transient = true
		frag = strings.TrimSuffix(frag, "+tr")
	}
	if strings.HasSuffix(frag, "+eof") {
		fr.withData = true
		frag = strings.TrimSuffix(frag, "+eof")
	}
	switch frag {
	case "one":
		fr.sizes = func(int) int { return 1 }
	case "all":
		fr.sizes = func(rem int) int { return rem }
	default:
		fr.sizes = func(int) int { return 1 + r.Intn(1+r.Intn(64)) }
	}
	st := &memStream{r: fr}
	conn, isClosed := newConn(st)
	if c.Limit > 0 {
		conn.SetReadLimit(c.Limit)
	}
	// independent parse, to locate payload bytes for the intact check
	frames := splitWire(c.Stream)
	type loc struct{ off int }
	var starts []int
	off := 0
	for _, f := range frames {
		off += len(f.Hdr)
		starts = append(starts, off)
		off += f.Len
	}
	defer func() {
		if rr := recover(); rr != nil {
			pan = fmt.Sprint(rr)
		}
		closed = isClosed()
		streamRead = fr.pos
	}()
	fi := -1
	consumed := 0
	var prev io.Reader
	fails := 0
	for step := 0; step < 64 && fails < 4; step++ {
		mt, rd, err := conn.NextReader()
		op := rdOp{Op: "next", Err: errClass(err)}
		if err != nil {
			op.Res, op.Errs = "err", err.Error()
			fails++
			ops = append(ops, op)
			if prev != nil { // a reader obtained earlier must not produce bytes either
				buf := make([]byte, 8)
				n, e := prev.Read(buf)
				so := rdOp{Op: "stale", N: n, Err: errClass(e), Res: "ok"}
				if e != nil {
					so.Res, so.Errs = "err", e.Error()
					if e == io.EOF {
						so.Res = "eof"
					}
				}
				ops = append(ops, so)
			}
			continue
		}
		fi++
		consumed = 0
		op.Res = "text"
		if mt == webtrans.BinaryMessage {
			op.Res = "binary"
		}
		ops = append(ops, op)
		if c.Pattern == "stale" && prev != nil {
			buf := make([]byte, 16)
			n, e := prev.Read(buf)
			so := rdOp{Op: "stale", N: n, Err: errClass(e), Res: "ok"}
			if e != nil {
				so.Res, so.Errs = "err", e.Error()
				if e == io.EOF {
					so.Res = "eof"
				}
			}
			ops = append(ops, so)
		}
		prev = rd
		maxReads := 1 << 30
		switch c.Pattern {
		case "none":
			maxReads = 0
		case "partial", "stale":
			maxReads = r.Intn(3)
		}
		for k := 0; k < maxReads; k++ {
			sz := 1 + r.Intn(1+r.Intn(300))
			if c.Pattern == "message" && r.Intn(2) == 0 {
				sz = 512 << uint(r.Intn(6)) // up to 16 KiB: reads larger than the read buffer bypass it
			}
			buf := make([]byte, sz)
			n, e := rd.Read(buf)
			ro := rdOp{Op: "read", N: n, Err: errClass(e), Res: "ok", Want: sz}
			ro.Intact = true
			if fi < len(starts) && n > 0 {
				s := starts[fi] + consumed
				ro.Intact = s+n <= len(c.Stream) && bytes.Equal(buf[:n], c.Stream[s:s+n])
			}
			consumed += n
			if e != nil {
				ro.Res, ro.Errs = "err", e.Error()
				if e == io.EOF {
					ro.Res = "eof"
				}
			}
			ops = append(ops, ro)
			if e != nil {
				break
			}
		}
	}
	return
}

func hdrBytes(bin bool, form int, n uint64) []byte {
	b0 := byte(0)
	if bin {
		b0 = 0x80
	}
	switch form {
	case 7:
		return []byte{b0 | byte(n)}
	case 16:
		h := []byte{b0 | 126, 0, 0}
		binary.BigEndian.PutUint16(h[1:], uint16(n))
		return h
	default:
		h := make([]byte, 9)
		h[0] = b0 | 127
		binary.BigEndian.PutUint64(h[1:], n)
		return h
	}
}

// rdCases builds the byte streams: well-formed (all length forms incl. non-minimal), truncated at
// every offset, random, mutated, huge declared lengths; x limits x consumption patterns x injected errors.
func rdCases(seed int64, nRandom int) []rdCase {
	r := rand.New(rand.NewSource(seed))
	var out []rdCase
	add := func(name string, s []byte, limit int64, errAt int, pat, frag string) {
		out = append(out, rdCase{Name: name, Stream: s, Limit: limit, ErrAt: errAt, Pattern: pat, Frag: frag, Seed: seed + int64(len(out))})
	}
	frame := func(bin bool, form int, n int) []byte {
		return append(hdrBytes(bin, form, uint64(n)), wtPayload(int64(n)+int64(form), n)...)
	}
	pats := []string{"message", "partial", "none", "stale"}
	frags := []string{"all", "one", "rand"}
	// well-formed streams, every length form for small lengths
	var wf [][]byte
	for _, n := range []int{0, 1, 5, 125} {
		for _, form := range []int{7, 16, 64} {
			wf = append(wf, frame(n%2 == 0, form, n))
		}
	}
	for _, n := range []int{126, 127, 300, 600, 2000} {
		for _, form := range []int{16, 64} {
			wf = append(wf, frame(n%2 == 1, form, n))
		}
	}
	for i := 0; i < 40; i++ {
		var s []byte
		for k := 0; k < 1+r.Intn(4); k++ {
			s = append(s, wf[r.Intn(len(wf))]...)
		}
		add(fmt.Sprintf("wf%d", i), s, 0, -1, pats[i%4], frags[i%3])
	}
	// coalesced long-then-short (multi-read of first message while the next frame is buffered)
	for i, n := range []int{513, 600, 1500, 3000} {
		s := append(frame(true, 16, n), frame(false, 7, 20)...)
		s = append(s, frame(true, 64, 700)...)
		add(fmt.Sprintf("coal%d", i), s, 0, -1, "message", "all")
	}
	// truncation at every offset of short streams
	for i := 0; i < 6; i++ {
		s := append(append([]byte{}, wf[r.Intn(12)]...), wf[r.Intn(len(wf)-8)]...)
		if len(s) > 140 {
			s = s[:140]
		}
		for cut := 0; cut <= len(s); cut++ {
			add(fmt.Sprintf("trunc%d_%d", i, cut), s[:cut], 0, -1, pats[(cut+i)%4], frags[cut%3])
		}
	}
	// injected stream error at every offset of one stream
	{
		s := append(frame(false, 7, 9), frame(true, 16, 130)...)
		for at := 0; at <= len(s); at += 1 + at/20 {
			add(fmt.Sprintf("inj%d", at), s, 0, at, pats[at%4], frags[at%3])
		}
	}
	// the same with a first message long enough to be consumed partly: every offset x every consumption pattern,
	// the failure arriving alone or together with the last bytes
	{
		s := append(frame(true, 16, 300), frame(false, 7, 20)...)
		s = append(s, frame(true, 16, 200)...)
		for at := 0; at <= len(s); at += 1 + at/40 {
			for pi, pat := range pats {
				add(fmt.Sprintf("injp%d_%s", at, pat), s, 0, at, pat, []string{"all", "rand", "all+eof", "rand+eof"}[(at+pi)%4])
				if at%3 == 0 {
					add(fmt.Sprintf("injt%d_%s", at, pat), s, 0, at, pat, []string{"all+tr", "rand+tr", "one+tr"}[(at/3+pi)%3])
				}
			}
		}
	}
	// truncated frames whose last bytes arrive together with the end of the stream, read with buffers of every size
	for i, n := range []int{300, 6000, 130, 70000} {
		for _, keep := range []int{n * 2 / 3, n - 1, 1} {
			form := 64
			if n < 65536 && i%2 == 1 {
				form = 16
			}
			s := append(hdrBytes(i%2 == 0, form, uint64(n)), wtPayload(int64(i), keep)...)
			for _, fg := range []string{"all+eof", "rand+eof", "one+eof"} {
				if (fg == "one+eof" && keep > 500) || (fg == "rand+eof" && keep > 6000) {
					continue // thousands of tiny reads: the fold over the operations is quadratic
				}
				add(fmt.Sprintf("eoft%d_%d_%s", i, keep, fg), s, 0, -1, "message", fg)
				add(fmt.Sprintf("eoftp%d_%d_%s", i, keep, fg), append(frame(false, 7, 5), s...), 0, -1, "partial", fg)
			}
		}
	}
	// huge declared lengths
	for i, n := range []uint64{1 << 31, 1<<63 - 1, 1 << 63, 1<<64 - 1, 1 << 32, 65536} {
		s := append(hdrBytes(i%2 == 0, 64, n), wtPayload(int64(i), 40)...)
		add(fmt.Sprintf("huge%d", i), s, 0, -1, pats[i%4], "all")
		add(fmt.Sprintf("hugelim%d", i), s, 1000, -1, "message", "all")
	}
	// read limits around the boundary
	for i, lim := range []int64{1, 10, 125, 126, 300} {
		for _, d := range []int{-1, 0, 1} {
			n := int(lim) + d
			if n < 0 {
				continue
			}
			form := 7
			if n > 125 {
				form = 16
			}
			s := append(frame(false, 7, 3), frame(true, form, n)...)
			s = append(s, frame(false, 7, 2)...)
			add(fmt.Sprintf("lim%d_%d", i, d+1), s, lim, -1, pats[(i+d+1)%2], frags[(i+d+1)%3])
		}
	}
	// a frame far above the limit whose payload is all there: the reader must give up after the header, not drain it
	for i, n := range []int{70000, 1 << 20} {
		s := append(hdrBytes(true, 64, uint64(n)), wtPayload(int64(i), n)...)
		add(fmt.Sprintf("biglim%d", i), s, 1000, -1, "message", "rand")
	}
	// random and mutated bytes
	for i := 0; i < nRandom; i++ {
		n := r.Intn(60)
		s := make([]byte, n)
		r.Read(s)
		if i%2 == 0 && n > 0 { // bias headers towards small lengths so several frames fit
			for k := 0; k < n; k += 1 + r.Intn(12) {
				s[k] = byte(r.Intn(20)) | byte(r.Intn(2)<<7)
			}
		}
		lim := int64(0)
		if i%5 == 0 {
			lim = int64(1 + r.Intn(40))
		}
		add(fmt.Sprintf("rnd%d", i), s, lim, -1, pats[i%4], frags[i%3])
	}
	for i := 0; i < nRandom/2; i++ {
		s := append([]byte{}, wf[r.Intn(len(wf))]...)
		s = append(s, wf[r.Intn(12)]...)
		if len(s) > 150 {
			s = s[:150]
		}
		for k := 0; k < 1+r.Intn(3); k++ {
			s[r.Intn(len(s))] ^= byte(1 << uint(r.Intn(8)))
		}
		add(fmt.Sprintf("mut%d", i), s, int64(r.Intn(2)*50), -1, pats[i%4], frags[i%3])
	}
	return out
}

func wtrScenarios(seed int64, nRandom int) []Scenario {
	var out []Scenario
	for _, c := range rdCases(seed, nRandom) {
		c := c
		out = append(out, Scenario{Name: c.Name, Run: func(t *testing.T, rec *Rec, g *Gates) {
			var ops []rdOp
			var pan string
			var closed bool
			var consumed int
			withSession := c.Limit > 0
			if withSession {
				h3 := newFakeH3()
				ops, pan, closed, consumed = runReader(c, func(st *memStream) (*webtrans.Conn, func() bool) {
					sess := h3.session(t)
					return webtrans.NewConn(sess, st, true, 0, 0, nil, nil, nil), h3.sessionClosed
				})
				h3.shutdown()
			} else {
				ops, pan, closed, consumed = runReader(c, func(st *memStream) (*webtrans.Conn, func() bool) {
					return webtrans.NewConn(nil, st, true, 0, 0, nil, nil, nil), func() bool { return false }
				})
			}
			if ops == nil {
				ops = []rdOp{}
			}
			raw := c.Stream
			// a very long stream is logged by its head only (enough for the reference parser to see the frame that is refused); streams
			// of several frames - up to four frames of up to 2 000 bytes in the well-formed cases - are logged in full: the reference
			// parser must see every header
			if len(raw) > 20000 {
				raw = raw[:64]
			}
			rec.Log("rd.case", "raw", ints(raw), "rawLen", len(c.Stream), "consumed", consumed, "limit", c.Limit, "errAt", c.ErrAt, "pattern", c.Pattern,
				"frag", c.Frag, "ops", ops, "panic", pan, "closed", closed, "session", withSession)
		}})
	}
	return out
}
