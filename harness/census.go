package harness

import (
	"regexp"
	"runtime"
	"strings"
)

var reBubble = regexp.MustCompile(`synctest bubble (\d+)`)

// GoroutinesInBubble returns the stacks of all goroutines of the caller's
// synctest bubble (the caller itself excluded).
func GoroutinesInBubble() []string {
	buf := make([]byte, 1<<20)
	for {
		n := runtime.Stack(buf, true)
		if n < len(buf) {
			buf = buf[:n]
			break
		}
		buf = make([]byte, 2*len(buf))
	}
	parts := strings.Split(string(buf), "\n\n")
	if len(parts) == 0 {
		return nil
	}
	m := reBubble.FindStringSubmatch(firstLine(parts[0]))
	if m == nil {
		return nil
	}
	tag := "synctest bubble " + m[1] + "]"
	var out []string
	for _, p := range parts[1:] {
		if strings.Contains(firstLine(p), tag) {
			out = append(out, p)
		}
	}
	return out
}

func firstLine(s string) string {
	if i := strings.IndexByte(s, '\n'); i >= 0 {
		return s[:i]
	}
	return s
}

// CountGoroutines counts the bubble's goroutines whose stack mentions any of subs.
func CountGoroutines(subs ...string) int {
	n := 0
	for _, g := range GoroutinesInBubble() {
		for _, s := range subs {
			if strings.Contains(g, s) {
				n++
				break
			}
		}
	}
	return n
}
