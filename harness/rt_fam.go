package harness

import (
	"errors"
	"fmt"
	"net/http"
	"strings"
	"testing"
	"testing/synctest"
	"time"

	"github.com/zishang520/engine.io/v2/config"
	"github.com/zishang520/engine.io/v2/types"
)

// ---- family "rt" (C05): one implementation test per cell of Routing.tla.

func segsOfMount(attach string) []string {
	if attach == "custom" {
		return []string{"foo", "bar"}
	}
	return []string{"engine.io"}
}

func pathOfShape(shape string, ms []string) string {
	j := "/" + strings.Join(ms, "/")
	switch shape {
	case "exact":
		return j + "/"
	case "noslash":
		return j
	case "sub":
		return j + "/x"
	case "subslash":
		return j + "/x/"
	case "dot":
		return j + "/./"
	case "enddot":
		return j + "/."
	case "dotdot":
		return j + "/x/../"
	case "enddotdot":
		return j + "/x/.."
	case "up":
		return j + "/../"
	case "dbl":
		return "/" + j + "//"
	case "case":
		return "/Engine.IO/"
	case "prefixonly":
		return "/engine.iox/"
	}
	return "/other/"
}

func attachOpts(attach string) any {
	switch attach {
	case "none":
		return nil
	case "serveropts":
		return &config.ServerOptions{}
	case "path-slash":
		o := &config.AttachOptions{}
		o.SetPath("/engine.io/")
		return o
	case "path-noslash":
		o := &config.AttachOptions{}
		o.SetPath("/engine.io")
		return o
	case "custom":
		o := &config.AttachOptions{}
		o.SetPath("/foo/bar")
		return o
	case "notrailing":
		o := &config.AttachOptions{}
		o.SetAddTrailingSlash(false)
		return o
	}
	return nil
}

func (w *World) quietEnd() {
	w.g.StopParking()
	w.g.ReleaseAll()
	synctest.Wait()
	w.Srv.Close()
	synctest.Wait()
	w.mu.Lock()
	conns := make([]*WSClient, 0, len(w.conns))
	for _, c := range w.conns {
		conns = append(conns, c)
	}
	reqs := make([]*Req, 0, len(w.reqs))
	for _, r := range w.reqs {
		reqs = append(reqs, r)
	}
	w.mu.Unlock()
	for _, c := range conns {
		if c.raw != nil {
			c.raw.Close()
		}
	}
	synctest.Wait()
	for _, r := range reqs {
		r.cancel()
	}
	synctest.Wait()
}

func rtRouteCell(t *testing.T, rec *Rec, g *Gates, scn string, cell map[string]any) {
	attach, shape := cell["attach"].(string), cell["shape"].(string)
	quiet := &Rec{start: rec.start}
	w := NewWorld(t, quiet, g, WorldOpts{Attach: true, AttachO: attachOpts(attach)})
	path := pathOfShape(shape, segsOfMount(attach))
	method, _ := cell["method"].(string)
	if method == "" {
		method = "GET"
	}
	r := w.StartReq("handshake", &Sess{Proto: 4}, ReqOpt{Path: path, Method: method})
	synctest.Wait()
	engine := r.Status == 200 && len(r.Pkts) > 0 && r.Pkts[0].Type == "open"
	if r.Status == 400 || r.Status == 403 { // an engine refusal is still the engine
		engine = strings.Contains(string(r.Body), `"code"`)
	}
	w.mu.Lock()
	app := w.appHit > 0
	w.mu.Unlock()
	rec.Log("rt.cell", "scn", scn, "cell", cell, "obs", map[string]any{"engine": engine, "app": app, "status": r.Status, "path": path})
	w.quietEnd()
}

func rtAdmitCell(t *testing.T, rec *Rec, g *Gates, scn string, cell map[string]any) {
	method, transport, sidc := cell["method"].(string), cell["transport"].(string), cell["sid"].(string)
	eio, origin, hook, mw, enabled := cell["eio"].(string), cell["origin"].(string), cell["hook"].(string), cell["mw"].(string), cell["enabled"].(string)
	upgrade, eio3 := cell["upgrade"].(bool), cell["eio3"].(bool)
	quiet := &Rec{start: rec.start}
	so := &config.ServerOptions{}
	// the registry is populated with every transport enabled; the cell's set is applied afterwards
	so.SetTransports(types.NewSet("polling", "websocket"))
	so.SetAllowEIO3(eio3)
	armed := false
	hookText := "hook says no to " + scn // the hook's own text: different for every cell of the process
	if hook != "none" {
		so.SetAllowRequest(func(*types.HttpContext) error {
			if armed && hook == "deny" {
				return errors.New(hookText)
			}
			return nil
		})
	}
	w := NewWorld(t, quiet, g, WorldOpts{Opts: so})
	if mw != "none" {
		w.Srv.Use(func(ctx *types.HttpContext, next func(error)) {
			if armed && mw == "fail" {
				next(errors.New("middleware failure"))
				return
			}
			next(nil)
		})
	}
	connErr, created := 0, 0
	w.Srv.On("connection_error", func(...any) { connErr++ })
	w.Srv.On("connection", func(...any) { created++ })
	sp, _ := w.Handshake(4, false, false, ReqOpt{})
	sw := &Sess{Proto: 4}
	w.DialWS(sw, "", nil, nil)
	sc, _ := w.Handshake(4, false, false, ReqOpt{})
	synctest.Wait()
	if s := w.Sock(sc.Sid); s != nil {
		s.Close(true)
	}
	synctest.Wait()
	// a session that is closing gracefully: no poll pending, the close packet waits for the next one
	var sg *Sess
	if sidc == "closing" {
		sg, _ = w.Handshake(4, false, false, ReqOpt{})
		synctest.Wait()
		if s := w.Sock(sg.Sid); s != nil {
			s.Close(false)
		}
		synctest.Wait()
	}
	switch enabled {
	case "p":
		w.Srv.Opts().SetTransports(types.NewSet("polling"))
	case "w":
		w.Srv.Opts().SetTransports(types.NewSet("websocket"))
	}
	armed = true
	connErr, created = 0, 0
	// the concrete request
	sid := ""
	switch sidc {
	case "unknown":
		sid = "nosuchsessionid"
	case "closed":
		sid = sc.Sid
	case "closing":
		sid = sg.Sid
	case "known-same":
		if transport == "websocket" {
			sid = sw.Sid
		} else {
			sid = sp.Sid
		}
	case "known-other":
		if transport == "websocket" {
			sid = sp.Sid
		} else {
			sid = sw.Sid
		}
	}
	q := ""
	switch transport {
	case "absent":
	case "repeated":
		q = "transport=bogus&transport=polling"
	default:
		q = "transport=" + transport
	}
	switch eio {
	case "4", "3":
		q += "&EIO=" + eio
	case "garbage":
		q += "&EIO=x4"
	}
	if sid != "" {
		q += "&sid=" + sid
	}
	q = strings.TrimPrefix(q, "&")
	hdr := http.Header{}
	if origin == "ctl" {
		hdr["Origin"] = []string{"http://a\x01b.example"}
	} else {
		hdr["Origin"] = []string{"http://ok.example"}
	}
	obs := map[string]any{"via": "none", "status": 0, "code": -1, "message": "", "text": "", "connErr": 0, "created": false, "disturbed": false, "closingEnded": false}
	if upgrade {
		if method != "GET" || origin == "ctl" {
			obs["via"] = "skipped"
		} else {
			c := w.dialRaw(q, hdr)
			synctest.Wait()
			obs["status"] = c.Status
			switch {
			case c.Err != "":
				obs["via"] = "http"
				obs["code"], obs["message"] = c.refCode, c.refMsg
			default:
				obs["via"] = "ws"
				obs["status"] = 101
				if c.closed {
					obs["via"] = "closeframe"
					obs["text"] = c.closeText
				}
			}
		}
	} else {
		var body []byte
		if method != "GET" {
			body = []byte{}
		}
		r := w.StartReq("other", nil, ReqOpt{Method: method, Query: q, Hdr: hdr, Body: body})
		synctest.Wait()
		obs["via"] = "http"
		obs["status"] = r.Status
		if r.Status >= 400 {
			c, m := jsonCodeMsg(r.Body)
			obs["code"], obs["message"] = c, m
		}
	}
	synctest.Wait()
	obs["connErr"], obs["created"] = connErr, created > 0
	okP := w.Sock(sp.Sid) != nil && w.Sock(sp.Sid).ReadyState() == "open"
	okW := w.Sock(sw.Sid) != nil && w.Sock(sw.Sid).ReadyState() == "open"
	_, inP := w.Srv.Clients().Load(sp.Sid)
	_, inW := w.Srv.Clients().Load(sw.Sid)
	obs["disturbed"] = !(okP && okW && inP && inW)
	if sg != nil {
		_, in := w.Srv.Clients().Load(sg.Sid)
		obs["closingEnded"] = !in && w.Sock(sg.Sid) != nil && w.Sock(sg.Sid).ReadyState() == "closed"
	}
	obs["hooktext"] = hookText
	rec.Log("rt.cell", "scn", scn, "cell", cell, "obs", obs)
	w.quietEnd()
}

// rtWtCell: one WebTransport admission cell (hook x first packet) on a fresh server with an open polling session and a closed one.
func rtWtCell(t *testing.T, rec *Rec, g *Gates, scn string, cell map[string]any) {
	hook, first := cell["hook"].(string), cell["first"].(string)
	quiet := &Rec{start: rec.start}
	so := &config.ServerOptions{}
	so.SetTransports(types.NewSet("polling", "websocket", "webtransport"))
	armed := false
	hookText := "hook says no to " + scn
	so.SetAllowRequest(func(*types.HttpContext) error {
		if armed && hook == "deny" {
			return errors.New(hookText)
		}
		return nil
	})
	w := NewWorld(t, quiet, g, WorldOpts{Opts: so})
	connErr, created := 0, 0
	w.Srv.On("connection_error", func(...any) { connErr++ })
	w.Srv.On("connection", func(...any) { created++ })
	sp, _ := w.Handshake(4, false, false, ReqOpt{})
	sc, _ := w.Handshake(4, false, false, ReqOpt{})
	synctest.Wait()
	if s := w.Sock(sc.Sid); s != nil {
		s.Close(true)
	}
	synctest.Wait()
	armed = true
	connErr, created = 0, 0
	s := &Sess{Proto: 4}
	switch first {
	case "known":
		s.Sid = sp.Sid
	case "unknown":
		s.Sid = "nosuchsessionid"
	case "closed":
		s.Sid = sc.Sid
	}
	c := w.DialWT(s, nil)
	synctest.Wait()
	obs := map[string]any{"via": "open", "status": 0, "code": -1, "message": "", "connErr": 0, "created": false, "disturbed": false, "upgrading": false}
	if code := c.wtReq.RW.Code(); code >= 400 {
		c.wtReq.RW.mu.Lock()
		body := append([]byte(nil), c.wtReq.RW.body...)
		c.wtReq.RW.mu.Unlock()
		cd, m := jsonCodeMsg(body)
		obs["via"], obs["status"], obs["code"], obs["message"] = "http", code, cd, m
	} else if c.closed {
		obs["via"] = "closed"
	}
	obs["connErr"], obs["created"] = connErr, created > 0
	so2 := w.Sock(sp.Sid)
	_, in := w.Srv.Clients().Load(sp.Sid)
	obs["disturbed"] = !(so2 != nil && so2.ReadyState() == "open" && in)
	obs["upgrading"] = so2 != nil && so2.Upgrading()
	obs["hooktext"] = hookText
	rec.Log("rt.cell", "scn", scn, "cell", cell, "obs", obs)
	w.quietEnd()
}

func jsonCodeMsg(body []byte) (int, string) {
	var cm struct {
		Code    *int   `json:"code"`
		Message string `json:"message"`
	}
	if jsonUnmarshal(body, &cm) == nil && cm.Code != nil {
		return *cm.Code, cm.Message
	}
	return -1, ""
}

func rtScenarios(behs [][]map[string]any) []Scenario {
	var cells []map[string]any
	for _, b := range behs {
		cells = append(cells, b...)
	}
	var out []Scenario
	const chunk = 150
	for i := 0; i < len(cells); i += chunk {
		part := cells[i:min(i+chunk, len(cells))]
		name := fmt.Sprintf("rt%d", i/chunk)
		out = append(out, Scenario{Name: name, Run: func(t *testing.T, rec *Rec, g *Gates) {
			for _, c := range part {
				if c["kind"] == "route" {
					rtRouteCell(t, rec, g, name, c)
				} else if c["kind"] == "wtadmit" {
					rtWtCell(t, rec, g, name, c)
				} else {
					rtAdmitCell(t, rec, g, name, c)
				}
			}
			time.Sleep(3 * time.Minute) // let every heartbeat / close timer of the torn-down servers run out
			synctest.Wait()
			if l := leftoverSummary(); len(l) > 0 {
				rec.Log("rt.left", "n", len(l), "stacks", l[:min(len(l), 5)])
			}
		}})
	}
	return out
}

func leftoverSummary() []string {
	var left []string
	for _, g := range GoroutinesInBubble() {
		if strings.Contains(g, "synctest.Run") || strings.Contains(g, "testingSynctestTest") {
			continue
		}
		fr := ""
		for _, ln := range strings.Split(g, "\n")[1:] {
			if !strings.HasPrefix(ln, "\t") {
				if i := strings.Index(ln, "("); i > 0 {
					ln = ln[:i]
				}
				fr += ln[strings.LastIndex(ln, "/")+1:] + " < "
			}
		}
		left = append(left, firstLine(g)+" "+fr)
	}
	return left
}
