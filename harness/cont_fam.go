package harness

import (
	"math"
	"fmt"
	"math/rand"
	"reflect"
	"regexp"
	"runtime"
	"sync"
	"sync/atomic"
	"testing"
	"time"

	"github.com/zishang520/engine.io/v2/events"
	"github.com/zishang520/engine.io/v2/types"
	"github.com/zishang520/engine.io/v2/utils"
)

// ---- family "cont" (C20): sequential scripts on Slice / Set / Map / EventEmitter with every
// return value recorded (TLC compares them with the reference semantics of Containers.tla),
// aliasing probes with caller-owned arrays that have spare capacity, id generators.
// ---- family "lin": concurrent histories (inv/ret) for TLC's linearization search.

type cRes struct {
	Err string `json:"err"`
	N   int    `json:"n"`
	Xs  []int  `json:"xs"`
}

type cOp struct {
	Op string `json:"op"`
	A  []int  `json:"a"`
	I  int    `json:"i"`
	J  int    `json:"j"`
	K  int    `json:"k"`
	M  int    `json:"m"`
	Rv bool   `json:"rv"`
	// Huge: the count really passed is math.MaxInt - (1<<30 - J); J (what the reference model sees: "everything from
	// the start index on") stays within the integers of the model checker
	Huge bool `json:"huge"`
}

// cnt is the delete count really passed to the container.
func (o cOp) cnt() int {
	if o.Huge {
		return math.MaxInt - (1<<30 - o.J)
	}
	return o.J
}

func errName(err error) string {
	switch err {
	case nil:
		return ""
	case types.ErrSliceEmpty:
		return "empty"
	case types.ErrIndexOutOfBounds:
		return "oob"
	case types.ErrInvalidSliceRange:
		return "range"
	}
	return "other:" + err.Error()
}

func nz(x []int) []int {
	if x == nil {
		return []int{}
	}
	return x
}

// callerSlice returns a caller-owned slice holding a, backed by an array with 3 spare cells
// pre-filled with sentinels, plus a function reporting whether the spare cells were modified.
func callerSlice(a []int) (arg []int, backing []int) {
	backing = make([]int, len(a)+3)
	copy(backing, a)
	for i := len(a); i < len(backing); i++ {
		backing[i] = 9000 + i
	}
	return backing[:len(a)], backing
}

func sentinelsIntact(backing []int, n int) bool {
	for i := n; i < len(backing); i++ {
		if backing[i] != 9000+i {
			return false
		}
	}
	return true
}

func slDo(s *types.Slice[int], o cOp) (res cRes, aliasMod, aliasShow bool) {
	res.Xs = []int{}
	defer func() {
		if r := recover(); r != nil {
			res = cRes{Err: "panic", Xs: []int{}}
		}
	}()
	pred := func(x int) bool { m := o.I; return ((x%m)+m)%m == o.J }
	arg, backing := callerSlice(o.A)
	probe := func() {
		aliasMod = !sentinelsIntact(backing, len(o.A))
		if len(o.A) > 0 {
			before := s.All()
			old := backing[0]
			backing[0] = 7777777
			after := s.All()
			aliasShow = !reflect.DeepEqual(before, after)
			backing[0] = old
		}
		// and the other way round: a container write must not show in the caller's array
		if s.Len() > 0 {
			snap := append([]int(nil), backing...)
			for i := 0; i < s.Len(); i++ {
				v, _ := s.Get(i)
				s.Set(i, v+1000000)
			}
			if !reflect.DeepEqual(snap, backing) {
				aliasShow = true
			}
			for i := 0; i < s.Len(); i++ {
				v, _ := s.Get(i)
				s.Set(i, v-1000000)
			}
		}
	}
	switch o.Op {
	case "push":
		res.N = s.Push(arg...)
		probe()
	case "unshift":
		res.N = s.Unshift(arg...)
		probe()
	case "pop":
		v, err := s.Pop()
		res.N, res.Err = v, errName(err)
	case "shift":
		v, err := s.Shift()
		res.N, res.Err = v, errName(err)
	case "get":
		v, err := s.Get(o.I)
		res.N, res.Err = v, errName(err)
	case "set":
		res.Err = errName(s.Set(o.I, o.J))
	case "slice":
		xs, err := s.Slice(o.I, o.J)
		res.Xs, res.Err = nz(xs), errName(err)
	case "filter":
		res.Xs = nz(s.Filter(pred))
	case "splice":
		xs, err := s.Splice(o.I, o.cnt(), arg...)
		res.Xs, res.Err = nz(xs), errName(err)
		probe()
	case "remove":
		s.Remove(pred)
	case "removeall":
		s.RemoveAll(pred)
	case "findindex":
		res.N = s.FindIndex(pred)
	case "range":
		s.Range(func(x int, _ int) bool {
			res.Xs = append(res.Xs, x)
			return x != o.I
		}, o.Rv)
	case "rangesplice":
		xs, err := s.RangeAndSplice(func(x int, _ int) (bool, int, int, []int) {
			return x == o.M, o.I, o.cnt(), arg
		}, o.Rv)
		res.Xs, res.Err = nz(xs), errName(err)
		probe()
	case "all":
		res.Xs = nz(s.All())
	case "clear":
		s.Clear()
	case "allandclear":
		res.Xs = nz(s.AllAndClear())
	case "len":
		res.N = s.Len()
	case "replace":
		s.Replace(append([]int(nil), o.A...))
	}
	return
}

func randInts(r *rand.Rand, n int) []int {
	out := make([]int, n)
	for i := range out {
		out[i] = r.Intn(7)
	}
	return out
}

var slOps = []string{"push", "unshift", "pop", "shift", "get", "set", "slice", "filter", "splice", "remove", "removeall",
	"findindex", "range", "rangesplice", "all", "clear", "allandclear", "len", "replace"}

func slRandOp(r *rand.Rand, n int, name string) cOp {
	o := cOp{Op: name, A: []int{}}
	idx := func() int { return r.Intn(n+4) - 2 } // -2 .. n+1
	switch name {
	case "push", "unshift", "replace":
		o.A = randInts(r, r.Intn(3))
	case "get":
		o.I = idx()
	case "set":
		o.I, o.J = idx(), r.Intn(7)
	case "slice":
		o.I, o.J = idx(), idx()
	case "filter", "remove", "removeall", "findindex":
		o.I = 2 + r.Intn(2)
		o.J = r.Intn(o.I)
	case "splice":
		o.I, o.J, o.A = idx(), r.Intn(5)-1, randInts(r, r.Intn(3))
		if r.Intn(5) == 0 { // counts up to the largest integer: "everything from the start index on"
			o.Huge, o.J = true, 1<<30-r.Intn(3)
		}
	case "range":
		o.I, o.Rv = r.Intn(7), r.Intn(2) == 0
	case "rangesplice":
		o.M, o.I, o.J, o.A, o.Rv = r.Intn(7), idx(), r.Intn(5)-1, randInts(r, r.Intn(3)), r.Intn(2) == 0
		if r.Intn(5) == 0 {
			o.Huge, o.J = true, 1<<30-r.Intn(3)
		}
	}
	return o
}

func opFromMap(m map[string]any) cOp {
	o := cOp{Op: m["op"].(string), A: []int{}}
	if a, ok := m["a"].([]any); ok {
		for _, x := range a {
			o.A = append(o.A, int(x.(float64)))
		}
	}
	gi := func(k string) int {
		if v, ok := m[k].(float64); ok {
			return int(v)
		}
		return 0
	}
	o.I, o.J, o.K, o.M = gi("i"), gi("j"), gi("k"), gi("m")
	if v, ok := m["rv"].(bool); ok {
		o.Rv = v
	}
	return o
}

func slScenario(name string, init []int, ops []cOp) Scenario {
	return Scenario{Name: name, Run: func(t *testing.T, rec *Rec, g *Gates) {
		arg, backing := callerSlice(init)
		s := types.NewSlice(arg...) // constructor may share storage (documented exception)
		_ = backing
		rec.Log("sl.new", "a", nz(init))
		for _, o := range ops {
			res, am, as := slDo(s, o)
			rec.Log("sl", "o", o, "res", res, "st", nz(s.All()), "aliasMod", am, "aliasShow", as)
		}
	}}
}

// ---------------------------------------------------------------- Set / Map sequential

func setScenario(name string, seed int64, n int) Scenario {
	return Scenario{Name: name, Run: func(t *testing.T, rec *Rec, g *Gates) {
		r := rand.New(rand.NewSource(seed))
		init := randInts(r, r.Intn(3))
		s := types.NewSet(init...)
		rec.Log("set.new", "a", init)
		for i := 0; i < n; i++ {
			o := cOp{Op: []string{"add", "delete", "has", "len", "clear", "add", "has"}[r.Intn(7)], A: []int{}}
			res := cRes{Xs: []int{}}
			func() {
				defer func() {
					if rr := recover(); rr != nil {
						res.Err = "panic"
					}
				}()
				b2i := func(b bool) int {
					if b {
						return 1
					}
					return 0
				}
				switch o.Op {
				case "add":
					o.A = randInts(r, r.Intn(3))
					res.N = b2i(s.Add(o.A...))
				case "delete":
					o.A = randInts(r, r.Intn(3))
					res.N = b2i(s.Delete(o.A...))
				case "has":
					o.I = r.Intn(7)
					res.N = b2i(s.Has(o.I))
				case "len":
					res.N = s.Len()
				case "clear":
					res.N = b2i(s.Clear())
				}
			}()
			keys := s.Keys()
			rec.Log("set", "o", o, "res", res, "st", nz(keys))
		}
	}}
}

func mapDo(m *types.Map[int, int], o cOp) (res cRes) {
	res.Xs = []int{}
	defer func() {
		if r := recover(); r != nil {
			res = cRes{Err: "panic", Xs: []int{}}
		}
	}()
	b := func(ok bool) {
		if ok {
			res.Xs = []int{1}
		}
	}
	switch o.Op {
	case "store":
		m.Store(o.I, o.J)
	case "load":
		v, ok := m.Load(o.I)
		res.N = v
		b(ok)
	case "delete":
		m.Delete(o.I)
	case "loadorstore":
		v, ok := m.LoadOrStore(o.I, o.J)
		res.N = v
		b(ok)
	case "loadanddelete":
		v, ok := m.LoadAndDelete(o.I)
		res.N = v
		b(ok)
	case "swap":
		v, ok := m.Swap(o.I, o.J)
		res.N = v
		b(ok)
	case "cas":
		b(m.CompareAndSwap(o.I, o.J, o.K))
	case "cad":
		b(m.CompareAndDelete(o.I, o.J))
	case "len":
		res.N = m.Len()
	case "clear":
		m.Clear()
	}
	return
}

var mapOps = []string{"store", "load", "delete", "loadorstore", "loadanddelete", "swap", "cas", "cad", "len", "clear", "load", "store"}

func mapRandOp(r *rand.Rand, conc bool) cOp {
	o := cOp{Op: mapOps[r.Intn(len(mapOps))], A: []int{}, I: r.Intn(3), J: 1 + r.Intn(3), K: 1 + r.Intn(3)}
	if conc && (o.Op == "len" || o.Op == "clear") { // Range-based ops are not snapshots in sync.Map
		o.Op = "load"
	}
	return o
}

func mapScenario(name string, seed int64, n int) Scenario {
	return Scenario{Name: name, Run: func(t *testing.T, rec *Rec, g *Gates) {
		r := rand.New(rand.NewSource(seed))
		m := &types.Map[int, int]{}
		rec.Log("map.new")
		for i := 0; i < n; i++ {
			o := mapRandOp(r, false)
			res := mapDo(m, o)
			var keys, vals []int
			for k := 0; k < 3; k++ {
				if v, ok := m.Load(k); ok {
					keys = append(keys, k)
					vals = append(vals, v)
				}
			}
			rec.Log("map", "o", o, "res", res, "keys", nz(keys), "vals", nz(vals), "nkeys", len(m.Keys()), "nvals", len(m.Values()))
		}
	}}
}

// ---------------------------------------------------------------- EventEmitter sequential

type emWorld struct {
	rec    *Rec
	em     types.EventEmitter
	fns    []types.Listener
	nested map[int][]emStep // listener id -> steps to perform inside its first call
	done   map[int]bool
}

type emStep struct {
	Op string `json:"op"` // on | once | emit | remove | removeall | count
	Fs []int  `json:"fs"` // listener ids, 0 = nil
	By int    `json:"by"` // 0 = top level, else performed from inside listener By's first call
}

func (w *emWorld) hit(i int) {
	w.rec.Log("em.call", "f", i)
	defer w.rec.Log("em.ret", "f", i)
	if !w.done[i] {
		w.done[i] = true
		for _, st := range w.nested[i] {
			w.step(st)
		}
	}
}

// distinct function literals: RemoveListener identifies a listener by its code pointer
func (w *emWorld) mkFns() {
	w.fns = []types.Listener{nil,
		func(...any) { w.hit(1) }, func(...any) { w.hit(2) }, func(...any) { w.hit(3) },
		func(...any) { w.hit(4) }, func(...any) { w.hit(5) },
	}
}

func (w *emWorld) step(st emStep) {
	var fs []types.Listener
	for _, id := range st.Fs {
		fs = append(fs, w.fns[id])
	}
	res := cRes{Xs: []int{}}
	w.rec.Log("em.begin", "s", st)
	func() {
		defer func() {
			if r := recover(); r != nil {
				res.Err = "panic"
			}
		}()
		switch st.Op {
		case "on":
			w.em.On("x", fs...)
		case "once":
			w.em.Once("x", fs...)
		case "emit":
			w.em.Emit("x", 1)
		case "remove":
			if w.em.RemoveListener("x", fs[0]) {
				res.N = 1
			}
		case "removeall":
			if w.em.RemoveAllListeners("x") {
				res.N = 1
			}
		case "count":
			res.N = w.em.ListenerCount("x")
		}
	}()
	count, nl := -1, -1
	func() {
		defer func() { recover() }() // a panic in an accessor is recorded as -1
		count = w.em.ListenerCount("x")
		nl = len(w.em.Listeners("x"))
	}()
	w.rec.Log("em.end", "s", st, "res", res, "count", count, "nl", nl)
}

func emScenario(name string, seed int64, n int, dup bool, viaPkg bool) Scenario {
	return Scenario{Name: name, Run: func(t *testing.T, rec *Rec, g *Gates) {
		r := rand.New(rand.NewSource(seed))
		w := &emWorld{rec: rec, nested: map[int][]emStep{}, done: map[int]bool{}}
		if viaPkg {
			w.em = events.New()
		} else {
			w.em = types.NewEventEmitter()
		}
		w.mkFns()
		rec.Log("em.new", "dup", dup)
		used := map[int]bool{}
		pick := func() int {
			for tries := 0; tries < 20; tries++ {
				id := 1 + r.Intn(5)
				if dup || !used[id] {
					used[id] = true
					return id
				}
			}
			return 0
		}
		mk := func(by int) emStep {
			st := emStep{By: by, Fs: []int{}}
			switch k := r.Intn(12); {
			case k < 3:
				st.Op = "on"
			case k < 5:
				st.Op = "once"
			case k < 8:
				st.Op = "emit"
			case k < 10:
				st.Op = "remove"
			case k < 11:
				st.Op = "count"
			default:
				st.Op = "removeall"
			}
			if by != 0 && (st.Op == "emit") { // nested emit of the same event is outside the contract
				st.Op = "count"
			}
			switch st.Op {
			case "on", "once":
				for i := 0; i < 1+r.Intn(2); i++ {
					id := pick()
					if r.Intn(9) == 0 {
						id = 0 // nil listener
					}
					st.Fs = append(st.Fs, id)
				}
			case "remove":
				st.Fs = []int{1 + r.Intn(5)}
			}
			return st
		}
		// some listeners act from inside their first call
		for i := 1; i <= 5; i++ {
			if r.Intn(3) == 0 {
				w.nested[i] = []emStep{mk(i)}
			}
		}
		for i := 0; i < n; i++ {
			w.step(mk(0))
		}
	}}
}

// concurrent emits with Once listeners: each must run at most once overall
func emOnceConcurrent(name string, seed int64) Scenario {
	return Scenario{Name: name, NoBubble: true, Run: func(t *testing.T, rec *Rec, g *Gates) {
		em := types.NewEventEmitter()
		var hits [4]atomic.Int32
		var perm atomic.Int32
		em.Once("x", func(...any) { hits[0].Add(1); runtime.Gosched() })
		em.Once("x", func(...any) { hits[1].Add(1); runtime.Gosched() })
		em.On("x", func(...any) { perm.Add(1) })
		em.Once("x", func(...any) { hits[2].Add(1) })
		var wg sync.WaitGroup
		const G = 6
		for i := 0; i < G; i++ {
			wg.Add(1)
			go func() { defer wg.Done(); em.Emit("x") }()
		}
		wg.Wait()
		rec.Log("em.conc", "once", []int{int(hits[0].Load()), int(hits[1].Load()), int(hits[2].Load())},
			"perm", int(perm.Load()), "emits", G, "left", em.ListenerCount("x"))
	}}
}

// ---------------------------------------------------------------- ids

var reURLSafe = regexp.MustCompile(`^[A-Za-z0-9_-]+$`)

func idsScenario(name string, kind string, goroutines, per int) Scenario {
	return Scenario{Name: name, NoBubble: true, Run: func(t *testing.T, rec *Rec, g *Gates) {
		var mu sync.Mutex
		seen := map[string]int{}
		unsafe := 0
		var wg sync.WaitGroup
		y := utils.NewYeast()
		for gi := 0; gi < goroutines; gi++ {
			wg.Add(1)
			go func() {
				defer wg.Done()
				local := make([]string, 0, per)
				for i := 0; i < per; i++ {
					var id string
					switch kind {
					case "base64id":
						id, _ = utils.Base64Id().GenerateId()
					case "yeast":
						id = y.Yeast()
					case "yeastdate":
						id = utils.YeastDate()
					}
					local = append(local, id)
				}
				mu.Lock()
				for _, id := range local {
					seen[id]++
					if kind == "base64id" && !reURLSafe.MatchString(id) {
						unsafe++
					}
				}
				mu.Unlock()
			}()
		}
		wg.Wait()
		dups := 0
		for _, c := range seen {
			if c > 1 {
				dups += c - 1
			}
		}
		rec.Log("ids", "kind", kind, "goroutines", goroutines, "total", goroutines*per, "distinct", len(seen), "dups", dups, "unsafe", unsafe)
	}}
}

func contScenarios(behs [][]map[string]any, seed int64, nRandom int) []Scenario {
	var out []Scenario
	r := rand.New(rand.NewSource(seed))
	// TLC-generated slice scripts
	for i, b := range behs {
		var ops []cOp
		var init []int
		for _, m := range b {
			if m["op"] == "new" {
				init = opFromMap(m).A
				continue
			}
			ops = append(ops, opFromMap(m))
		}
		out = append(out, slScenario(fmt.Sprintf("slbeh%d", i), init, ops))
	}
	// boundary sweep: every op with every small argument on short slices
	k := 0
	for n := 0; n <= 3; n++ {
		for _, name := range slOps {
			for rep := 0; rep < 6; rep++ {
				init := randInts(r, n)
				out = append(out, slScenario(fmt.Sprintf("slb%d", k), init, []cOp{slRandOp(r, n, name), slRandOp(r, n, "all")}))
				k++
			}
		}
	}
	for i := 0; i < nRandom; i++ {
		n := r.Intn(4)
		var ops []cOp
		for j := 0; j < 4+r.Intn(8); j++ {
			ops = append(ops, slRandOp(r, n+j/2, slOps[r.Intn(len(slOps))]))
		}
		out = append(out, slScenario(fmt.Sprintf("slr%d_%d", seed, i), randInts(r, n), ops))
		out = append(out, setScenario(fmt.Sprintf("set%d_%d", seed, i), seed*31+int64(i), 10))
		out = append(out, mapScenario(fmt.Sprintf("map%d_%d", seed, i), seed*37+int64(i), 14))
		out = append(out, emScenario(fmt.Sprintf("em%d_%d", seed, i), seed*41+int64(i), 8+r.Intn(8), i%4 == 3, i%2 == 0))
	}
	for i := 0; i < 20; i++ {
		out = append(out, emOnceConcurrent(fmt.Sprintf("emconc%d", i), seed+int64(i)))
	}
	per := 20000
	if Tier() == "thorough" {
		per = 120000
	}
	out = append(out, idsScenario("ids_base64", "base64id", 8, per))
	out = append(out, idsScenario("ids_yeast", "yeast", 8, per))
	out = append(out, idsScenario("ids_yeast1", "yeast", 1, per))
	out = append(out, idsScenario("ids_yeastdate", "yeastdate", 8, per))
	return out
}

// ---------------------------------------------------------------- concurrent histories

type hist struct {
	rec *Rec
	id  atomic.Int64
}

func (h *hist) call(g int, obj string, o cOp, f func() cRes) {
	id := int(h.id.Add(1))
	h.rec.Log("inv", "id", id, "g", g, "obj", obj, "o", o)
	res := f()
	h.rec.Log("ret", "id", id, "g", g, "res", res)
}

func yieldNow() { runtime.Gosched(); time.Sleep(20 * time.Microsecond); runtime.Gosched() }

func linMapScenario(name string, seed int64, G, per int) Scenario {
	return Scenario{Name: name, NoBubble: true, Run: func(t *testing.T, rec *Rec, g *Gates) {
		m := &types.Map[int, int]{}
		rec.Log("lin.new", "obj", "map", "a", []int{})
		h := &hist{rec: rec}
		var wg sync.WaitGroup
		for gi := 0; gi < G; gi++ {
			wg.Add(1)
			go func(gi int) {
				defer wg.Done()
				r := rand.New(rand.NewSource(seed*101 + int64(gi)))
				for i := 0; i < per; i++ {
					o := mapRandOp(r, true)
					h.call(gi, "map", o, func() cRes { return mapDo(m, o) })
					if r.Intn(2) == 0 {
						runtime.Gosched()
					}
				}
			}(gi)
		}
		wg.Wait()
		rec.Log("lin.end")
	}}
}

// slice ops whose callbacks yield in the middle of the operation (the lock must cover the whole op)
func linSliceScenario(name string, seed int64, G, per int) Scenario {
	return Scenario{Name: name, NoBubble: true, Run: func(t *testing.T, rec *Rec, g *Gates) {
		r0 := rand.New(rand.NewSource(seed))
		init := []int{0, 1, 2, 3}[:1+r0.Intn(4)]
		s := types.NewSlice(append([]int(nil), init...)...)
		rec.Log("lin.new", "obj", "slice", "a", init)
		h := &hist{rec: rec}
		var wg sync.WaitGroup
		names := []string{"push", "unshift", "pop", "shift", "remove", "removeall", "findindex", "filter", "len", "all", "rangesplice", "splice", "get", "allandclear"}
		for gi := 0; gi < G; gi++ {
			wg.Add(1)
			go func(gi int) {
				defer wg.Done()
				r := rand.New(rand.NewSource(seed*103 + int64(gi)))
				for i := 0; i < per; i++ {
					o := slRandOp(r, 3, names[r.Intn(len(names))])
					// keep arguments valid: the concurrent contract is about atomicity, not argument checking
					if o.Op == "splice" || o.Op == "rangesplice" {
						o.I, o.J, o.Huge = 0, r.Intn(2), false
					}
					if o.Op == "get" {
						o.I = 0
					}
					h.call(gi, "slice", o, func() cRes { return slDoYield(s, o) })
				}
			}(gi)
		}
		wg.Wait()
		rec.Log("lin.end")
	}}
}

// slDoYield is slDo without aliasing probes and with callbacks that yield the processor.
func slDoYield(s *types.Slice[int], o cOp) (res cRes) {
	res.Xs = []int{}
	defer func() {
		if r := recover(); r != nil {
			res = cRes{Err: "panic", Xs: []int{}}
		}
	}()
	pred := func(x int) bool { yieldNow(); m := o.I; return ((x%m)+m)%m == o.J }
	arg := append([]int(nil), o.A...)
	switch o.Op {
	case "push":
		res.N = s.Push(arg...)
	case "unshift":
		res.N = s.Unshift(arg...)
	case "pop":
		v, err := s.Pop()
		res.N, res.Err = v, errName(err)
	case "shift":
		v, err := s.Shift()
		res.N, res.Err = v, errName(err)
	case "get":
		v, err := s.Get(o.I)
		res.N, res.Err = v, errName(err)
	case "filter":
		res.Xs = nz(s.Filter(pred))
	case "splice":
		xs, err := s.Splice(o.I, o.cnt(), arg...)
		res.Xs, res.Err = nz(xs), errName(err)
	case "remove":
		s.Remove(pred)
	case "removeall":
		s.RemoveAll(pred)
	case "findindex":
		res.N = s.FindIndex(pred)
	case "rangesplice":
		xs, err := s.RangeAndSplice(func(x int, _ int) (bool, int, int, []int) {
			yieldNow()
			return x == o.M, o.I, o.cnt(), arg
		}, o.Rv)
		res.Xs, res.Err = nz(xs), errName(err)
	case "all":
		res.Xs = nz(s.All())
	case "allandclear":
		res.Xs = nz(s.AllAndClear())
	case "len":
		res.N = s.Len()
	}
	return
}

func linSetScenario(name string, seed int64, G, per int) Scenario {
	return Scenario{Name: name, NoBubble: true, Run: func(t *testing.T, rec *Rec, g *Gates) {
		s := types.NewSet[int]()
		rec.Log("lin.new", "obj", "set", "a", []int{})
		h := &hist{rec: rec}
		var wg sync.WaitGroup
		for gi := 0; gi < G; gi++ {
			wg.Add(1)
			go func(gi int) {
				defer wg.Done()
				r := rand.New(rand.NewSource(seed*107 + int64(gi)))
				b2i := func(b bool) int {
					if b {
						return 1
					}
					return 0
				}
				for i := 0; i < per; i++ {
					o := cOp{Op: []string{"add", "delete", "has", "len"}[r.Intn(4)], A: []int{}, I: r.Intn(3)}
					if o.Op == "add" || o.Op == "delete" {
						o.A = randInts(r, 1+r.Intn(2))
					}
					h.call(gi, "set", o, func() cRes {
						res := cRes{Xs: []int{}}
						switch o.Op {
						case "add":
							res.N = b2i(s.Add(o.A...))
						case "delete":
							res.N = b2i(s.Delete(o.A...))
						case "has":
							res.N = b2i(s.Has(o.I))
						case "len":
							res.N = s.Len()
						}
						return res
					})
					runtime.Gosched()
				}
			}(gi)
		}
		wg.Wait()
		rec.Log("lin.end")
	}}
}

func linScenarios(seed int64, n int) []Scenario {
	var out []Scenario
	for i := 0; i < n; i++ {
		G := 2 + i%3
		out = append(out, linMapScenario(fmt.Sprintf("linmap%d_%d", seed, i), seed*1009+int64(i), G, 3))
		out = append(out, linSliceScenario(fmt.Sprintf("linslice%d_%d", seed, i), seed*1013+int64(i), G, 3))
		if i%3 == 0 {
			out = append(out, linSetScenario(fmt.Sprintf("linset%d_%d", seed, i), seed*1019+int64(i), G, 3))
		}
	}
	// wider histories: up to 8 goroutines, 2 ops each
	for i := 0; i < n/4; i++ {
		out = append(out, linMapScenario(fmt.Sprintf("linmapw%d_%d", seed, i), seed*1021+int64(i), 5+i%4, 2))
	}
	return out
}
