package harness

import (
	"fmt"
	"testing"
	"testing/synctest"
	"time"

	"github.com/zishang520/engine.io/v2/engine"
)

// Family "cons": behaviours of spec/Construct.tla (the constructor window of one session on a stream transport) replayed into the
// real server. The handshaking goroutine is stepped through its yield points
//
//	attached     log:readyState updated from %s to %s   (first statement of onOpen: listeners attached, state "opening")
//	open         log:sending packet "%s" (%p)           (sendPacket of the open packet, before it is buffered)
//	flushing     S.flush                                (the flush has taken the open packet)
//	handed       S.drain                                (.. and handed it to the transport)
//	constructed  handshake.constructed                  ("open" emitted, heartbeat timers armed, NewSocket returned)
//	stored       handshake.stored
//	listening    handshake.listening
//
// while the model's other actions happen to it: the peer's connection fails (fault), a heartbeat packet in the session's or in
// the wrong direction arrives, the ping timer and the deadline fire. After every step the projection of the model state that can be
// seen from outside (table entry, count, connection events, ready state once the session can be got hold of, close events once
// the application has been handed it) is compared with the real server.
const sendLogPoint = `log:sending packet "%s" (%p)`

func consReplayScenario(name string, beh []map[string]any, rev int, wt bool) Scenario {
	return Scenario{Name: name, Run: func(t *testing.T, rec *Rec, g *Gates) {
		cfg := EngCfg{PI: 2 * time.Second, PT: time.Second, EIO3: true, WT: wt}
		w := newEngWorld(t, rec, g, cfg)
		nconn, nclose := 0, 0
		var sock engine.Socket
		w.Hook("connection", func(sid string, _ ...any) {
			nconn++
			if so := w.Sock(sid); so != nil {
				so.On("close", func(...any) { nclose++ })
			}
		})
		points := []string{openLogPoint, sendLogPoint, "S.flush", "S.drain", "handshake.constructed", "handshake.stored", "handshake.listening"}
		for _, p := range points {
			g.Park(p, true)
		}
		s := &Sess{Proto: rev}
		var c *WSClient
		if wt {
			c = w.DialWT(s, func(_ *WSClient, p Pkt) {
				if p.Type == "open" {
					s.Sid = openSid(p.Data)
				}
			})
		} else {
			c = w.DialWS(s, "", nil, func(_ *WSClient, p Pkt) {
				if p.Type == "open" {
					s.Sid = openSid(p.Data)
				}
			})
		}
		synctest.Wait()
		// the handshaking goroutine is the one parked now; it passes each of its yield points once (the same debug statements and
		// server-level listeners are reached by other goroutines as well - the reader answering a ping, OnClose, later flushes:
		// whoever else parks is let go at once, and a point the constructor has passed is no gate any more)
		idx := func(pt string) int {
			for i, p := range points {
				if p == pt {
					return i
				}
			}
			return len(points)
		}
		consN, consPt := g.Newest()
		consIdx := idx(consPt)
		if consN == 0 {
			consIdx = len(points)
		}
		disarm := func() {
			for i := 0; i < consIdx && i < len(points); i++ {
				g.Park(points[i], false)
			}
		}
		disarm()
		others := func() {
			for g.ReleaseExcept(consN) {
				synctest.Wait()
			}
		}
		advance := func(upto int) {
			// let the handshaking goroutine run to the yield point number `upto` (further if the code skips points: a session that
			// closed meanwhile sends no open packet)
			for consIdx < upto && consN != 0 {
				old := consN
				g.Park(points[consIdx], false)
				g.ReleaseN(consN)
				synctest.Wait()
				n, pt := g.Newest()
				if n > old {
					consN, consIdx = n, idx(pt)
				} else {
					consN, consIdx = 0, len(points)
				}
				disarm()
				others()
			}
		}
		var pitDue, pttDue time.Time
		armed := false
		arm := func() {
			if armed {
				return
			}
			armed = true
			if rev == 4 {
				pitDue = time.Now().Add(cfg.PI)
			} else {
				pttDue = time.Now().Add(cfg.PI + cfg.PT)
			}
		}
		sleepUntil := func(at time.Time) {
			if d := time.Until(at); d > 0 {
				g.SleepArmed(d)
			}
			synctest.Wait()
		}
		hb, wrong := "pong", "ping"
		if rev == 3 {
			hb, wrong = "ping", "pong"
		}
		for _, a := range beh {
			switch a["a"] {
			case "open":
				advance(1)
			case "flush":
				advance(2)
			case "hand":
				advance(3)
			case "arm":
				advance(4)
				arm()
			case "store":
				advance(5)
			case "listen":
				advance(6)
			case "recheck":
				advance(7)
			case "fault":
				if s.Sid != "" {
					w.Cause(s.Sid, "error")
					w.Cause(s.Sid, "peer")
				}
				c.Drop()
			case "heartbeat":
				c.SendPkt(Pkt{Type: hb})
				synctest.Wait()
				// (accepted only by an open session with its listeners attached; the refresh moves the timer that exists)
				if exp, _ := a["exp"].(map[string]any); exp != nil && exp["rs"] == "open" && armed {
					if rev == 4 {
						pitDue = time.Now().Add(cfg.PI)
					} else {
						pttDue = time.Now().Add(cfg.PI + cfg.PT)
					}
				}
			case "wrongdir":
				if s.Sid != "" {
					w.Cause(s.Sid, "error")
				}
				c.SendPkt(Pkt{Type: wrong})
			case "pingfire":
				sleepUntil(pitDue)
				pttDue = time.Now().Add(cfg.PT)
			case "deadline":
				sleepUntil(pttDue)
			}
			synctest.Wait()
			others()
			if sock == nil && s.Sid != "" {
				if so, ok := w.Srv.Clients().Load(s.Sid); ok {
					sock = so
				} else if so := w.Sock(s.Sid); so != nil {
					sock = so
				}
			}
			if exp, ok := a["exp"].(map[string]any); ok {
				act := map[string]any{"table": false, "count": int64(w.Srv.ClientsCount()), "conn": nconn, "rs": "", "nclose": -1}
				for range w.Srv.Clients().Keys() {
					act["table"] = true
				}
				if sock != nil {
					act["rs"] = sock.ReadyState()
				}
				if nconn > 0 {
					act["nclose"] = nclose
				}
				rec.Log("cons.expect", "a", a["a"], "exp", exp, "act", act)
			}
		}
		for _, p := range points {
			g.Park(p, false)
		}
		g.ReleaseAll()
		synctest.Wait()
		// let whatever heartbeat is armed run out (a closed session's timers fire once and find it closed)
		w.g.Sleep(2*(cfg.PI+cfg.PT) + time.Second)
		synctest.Wait()
		w.Snapshot()
		w.ServerClose()
		synctest.Wait()
		w.Finish()
	}}
}

func consFamily(behs [][]map[string]any) []Scenario {
	var out []Scenario
	for i, b := range behs {
		rev := 4
		if len(b) > 0 {
			if r, ok := b[0]["rev"].(float64); ok {
				rev = int(r)
			}
		}
		out = append(out, consReplayScenario(fmt.Sprintf("cons%d_r%d", i, rev), b, rev, false))
		if rev == 4 && i%3 == 0 { // the model's stream transport stands for WebSocket and WebTransport alike
			out = append(out, consReplayScenario(fmt.Sprintf("cons%d_r%dwt", i, rev), b, rev, true))
		}
	}
	return out
}
