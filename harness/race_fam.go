package harness

import (
	"fmt"
	"runtime"
	"sync"
	"sync/atomic"
	"testing"
	"testing/synctest"
	"time"

	"github.com/zishang520/engine.io/v2/types"
)

// ---- family "race": the real scheduler (GOMAXPROCS 8) instead of gates. Application goroutines hammer one session (or
// the registry) in parallel; the world records into a quiet recorder (per-event logging would serialise the goroutines),
// and ONE compact result event per scenario goes to the trace; the TLA+ monitor RaceMon.tla judges it.

// raceSendScenario: G goroutines each Send M messages on one session of the given kind; a conformant client reads.
func raceSendScenario(name, kind string, G, M int) Scenario {
	return Scenario{Name: name, Run: func(t *testing.T, rec *Rec, g *Gates) {
		quiet := &Rec{start: rec.start}
		cfg := EngCfg{PI: 25 * time.Second, PT: 20 * time.Second, WT: true}
		w := NewWorld(t, quiet, g, WorldOpts{Opts: cfg.options()})
		var mu sync.Mutex
		var rcvd []int
		onPkt := func(_ *WSClient, p Pkt) {
			if p.Type == "message" {
				id, ok := w.matchServerMsg(p.Data)
				if !ok {
					id = -id - 1
				}
				mu.Lock()
				rcvd = append(rcvd, id)
				mu.Unlock()
			}
		}
		s := &Sess{Proto: 4}
		var conn *WSClient
		stopPoll := make(chan struct{})
		switch kind {
		case "websocket":
			conn = w.DialWS(s, "", nil, onPkt)
		case "webtransport":
			conn = w.DialWT(s, onPkt)
		default:
			s, _ = w.Handshake(4, false, false, ReqOpt{})
		}
		synctest.Wait()
		if s.Sid == "" {
			rec.Log("race.skip", "why", "no session")
			w.quietEnd()
			return
		}
		if kind == "polling" {
			go func() { // the conformant client: one poll after the other
				for {
					select {
					case <-stopPoll:
						return
					default:
					}
					r := w.Poll(s)
					<-r.done
					if r.Status != 200 {
						return
					}
					for _, p := range r.Pkts {
						if p.Type == "close" {
							return
						}
						onPkt(nil, p)
					}
				}
			}()
		}
		sent := make([][]int, G)
		var wg sync.WaitGroup
		so := w.Sock(s.Sid)
		for gi := 0; gi < G; gi++ {
			wg.Add(1)
			go func(gi int) {
				defer wg.Done()
				for k := 0; k < M; k++ {
					if so.ReadyState() != "open" {
						return
					}
					id := w.Send(s.Sid, SendOpt{Size: 4 + (gi+k)%20, Bin: (gi+k)%5 == 0})
					sent[gi] = append(sent[gi], id)
				}
			}(gi)
		}
		wg.Wait()
		synctest.Wait()
		time.Sleep(200 * time.Millisecond) // a pending poll is answered, the last batch written
		synctest.Wait()
		if kind == "polling" { // one more poll cycle so that everything buffered goes out
			time.Sleep(time.Second)
			synctest.Wait()
		}
		close(stopPoll)
		mu.Lock()
		got := append([]int(nil), rcvd...)
		mu.Unlock()
		rec.Log("race.send", "kind", kind, "sent", sent, "rcvd", got, "rs", so.ReadyState(), "closedConn", conn != nil && conn.closed)
		w.quietEnd()
		time.Sleep(3 * time.Minute)
		synctest.Wait()
	}}
}

// raceCloseScenario: for each of N sessions, several goroutines bring about different close causes at the same moment.
func raceCloseScenario(name string, N int) Scenario {
	return Scenario{Name: name, Run: func(t *testing.T, rec *Rec, g *Gates) {
		quiet := &Rec{start: rec.start}
		cfg := EngCfg{PI: 25 * time.Second, PT: 20 * time.Second}
		w := NewWorld(t, quiet, g, WorldOpts{Opts: cfg.options()})
		type one struct {
			sid string
			ws  *WSClient
			s   *Sess
		}
		var all []one
		for i := 0; i < N; i++ {
			if i%2 == 0 {
				s := &Sess{Proto: 4}
				c := w.DialWS(s, "", nil, nil)
				synctest.Wait()
				all = append(all, one{s.Sid, c, s})
			} else {
				s, _ := w.Handshake(4, false, false, ReqOpt{})
				w.Poll(s)
				synctest.Wait()
				all = append(all, one{s.Sid, nil, s})
			}
		}
		var wg sync.WaitGroup
		start := make(chan struct{})
		for _, o := range all {
			if o.sid == "" {
				continue
			}
			so := w.Sock(o.sid)
			acts := []func(){
				func() { so.Close(true) },
				func() { so.Close(false) },
				func() {
					if o.ws != nil {
						o.ws.Drop()
					} else {
						w.Post(o.s, []Pkt{{Type: "close"}}, ReqOpt{})
					}
				},
				func() { so.Send(nil, nil, nil) },
			}
			for _, a := range acts {
				wg.Add(1)
				go func(a func()) { defer wg.Done(); <-start; a() }(a)
			}
		}
		close(start)
		wg.Wait()
		synctest.Wait()
		time.Sleep(40 * time.Second)
		synctest.Wait()
		closes := map[string]int{}
		states := map[string]any{}
		for _, o := range all {
			if o.sid == "" {
				continue
			}
			sid := o.sid
			closes[sid] = quiet.CountWhere(func(e Ev) bool { return e["e"] == "sock.close" && e["sid"] == sid })
			states[sid] = w.Sock(sid).ReadyState()
		}
		cl := map[string]any{}
		for k, v := range closes {
			cl[k] = v
		}
		rec.Log("race.close", "closes", cl, "states", states, "clients", w.Srv.Clients().Len(), "count", int64(w.Srv.ClientsCount()))
		w.quietEnd()
		time.Sleep(3 * time.Minute)
		synctest.Wait()
	}}
}

// raceRegistryScenario: G goroutines open and close sessions in parallel; afterwards table and count are empty / zero.
func raceRegistryScenario(name string, G, M int) Scenario {
	return Scenario{Name: name, Run: func(t *testing.T, rec *Rec, g *Gates) {
		quiet := &Rec{start: rec.start}
		cfg := EngCfg{PI: 25 * time.Second, PT: 20 * time.Second}
		w := NewWorld(t, quiet, g, WorldOpts{Opts: cfg.options()})
		var wg sync.WaitGroup
		var mu sync.Mutex
		ids := map[string]int{}
		// readers of the table (requests naming unknown sessions, monitoring code listing the clients) run all along
		stopReaders := make(chan struct{})
		var rg sync.WaitGroup
		for ri := 0; ri < 3; ri++ {
			rg.Add(1)
			go func(ri int) {
				defer rg.Done()
				for k := 0; ; k++ {
					select {
					case <-stopReaders:
						return
					default:
					}
					if ri == 0 {
						w.Srv.Clients().Keys()
					} else {
						w.Srv.Clients().Load(fmt.Sprintf("nobody-%d-%d", ri, k))
					}
					if k%64 == 0 {
						runtime.Gosched()
					}
				}
			}(ri)
		}
		for gi := 0; gi < G; gi++ {
			wg.Add(1)
			go func(gi int) {
				defer wg.Done()
				for k := 0; k < M; k++ {
					s := &Sess{Proto: 4, B64: false}
					r := w.StartReq("handshake", s, ReqOpt{})
					<-r.done
					sid := ""
					for _, p := range r.Pkts {
						if p.Type == "open" {
							sid = openSid(p.Data)
						}
					}
					if sid == "" {
						continue
					}
					mu.Lock()
					ids[sid]++
					mu.Unlock()
					if so := w.Sock(sid); so != nil {
						if (gi+k)%2 == 0 {
							so.Close(true)
						} else {
							s.Sid = sid
							pr := w.Post(s, []Pkt{{Type: "close"}}, ReqOpt{})
							<-pr.done
						}
					}
				}
			}(gi)
		}
		wg.Wait()
		close(stopReaders)
		rg.Wait()
		synctest.Wait()
		time.Sleep(40 * time.Second)
		synctest.Wait()
		dup := 0
		for _, n := range ids {
			if n > 1 {
				dup++
			}
		}
		rec.Log("race.registry", "opened", len(ids), "dupIds", dup, "clients", w.Srv.Clients().Len(), "count", int64(w.Srv.ClientsCount()),
			"closeEvents", quiet.CountWhere(func(e Ev) bool { return e["e"] == "sock.close" }),
			"connEvents", quiet.CountWhere(func(e Ev) bool { return e["e"] == "srv.connection" }))
		w.quietEnd()
		time.Sleep(3 * time.Minute)
		synctest.Wait()
	}}
}

// raceMapScenario: the container behind the client table under the access pattern of the registry at full speed: every
// worker stores a fresh key and deletes it again at once, readers miss all the time (misses promote the dirty part), a set
// of stable keys must stay reachable throughout.
func raceMapScenario(name string, G, iters int) Scenario {
	return Scenario{Name: name, NoBubble: true, Run: func(t *testing.T, rec *Rec, g *Gates) {
		m := &types.Map[string, int]{}
		const stable = 64
		for i := 0; i < stable; i++ {
			m.Store(fmt.Sprintf("stable-%d", i), i)
		}
		var lost, wrong, stableMiss atomic.Int64
		stop := make(chan struct{})
		var rg, wg sync.WaitGroup
		for ri := 0; ri < 2; ri++ {
			rg.Add(1)
			go func(ri int) {
				defer rg.Done()
				for k := 0; ; k++ {
					select {
					case <-stop:
						return
					default:
					}
					m.Load(fmt.Sprintf("nobody-%d-%d", ri, k))
					if v, ok := m.Load(fmt.Sprintf("stable-%d", k%stable)); !ok || v != k%stable {
						stableMiss.Add(1)
					}
				}
			}(ri)
		}
		for gi := 0; gi < G; gi++ {
			wg.Add(1)
			go func(gi int) {
				defer wg.Done()
				for k := 0; k < iters; k++ {
					key := fmt.Sprintf("s-%d-%d", gi, k)
					m.Store(key, k)
					if v, ok := m.LoadAndDelete(key); !ok {
						lost.Add(1)
					} else if v != k {
						wrong.Add(1)
					}
				}
			}(gi)
		}
		wg.Wait()
		close(stop)
		rg.Wait()
		missing := 0
		for i := 0; i < stable; i++ {
			if _, ok := m.Load(fmt.Sprintf("stable-%d", i)); !ok {
				missing++
			}
		}
		rec.Log("race.map", "ops", G*iters, "lostDeletes", lost.Load(), "wrongValues", wrong.Load(), "stableMissDuring", stableMiss.Load(),
			"stableMissingAtEnd", missing, "finalLen", m.Len()-stable+missing)
	}}
}

func raceFamily(seed int64, n int) []Scenario {
	var out []Scenario
	for i := 0; i < max(1, n/3); i++ {
		out = append(out, raceMapScenario(fmt.Sprintf("racemap%d_%d", seed, i), 6, 60000))
	}
	for i := 0; i < n; i++ {
		kind := []string{"websocket", "webtransport", "polling"}[i%3]
		out = append(out, raceSendScenario(fmt.Sprintf("racesend%d_%s_%d", seed, kind, i), kind, 8, 400))
	}
	for i := 0; i < max(1, n/4); i++ {
		out = append(out, raceCloseScenario(fmt.Sprintf("raceclose%d_%d", seed, i), 12))
		out = append(out, raceRegistryScenario(fmt.Sprintf("racereg%d_%d", seed, i), 8, 300))
	}
	return out
}
