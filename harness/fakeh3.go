package harness

import (
	"context"
	"errors"
	"io"
	"net"
	"net/http"
	"net/url"
	"sync"
	"testing"
	"time"

	"github.com/quic-go/quic-go"
	"github.com/quic-go/quic-go/http3"
	"github.com/quic-go/quic-go/quicvarint"
	"github.com/zishang520/webtransport-go"
)

// A fake HTTP/3 + QUIC layer built only from the public interfaces of quic-go and
// webtransport-go: it lets webtransport.Server.Upgrade hand out a REAL
// *webtransport.Session over in-memory streams, so engine.io's WebTransport code runs
// unmodified inside a synctest bubble.

type half struct {
	mu     sync.Mutex
	cond   *sync.Cond
	buf    []byte
	closed bool
	err    error
	total  int
	seg    []int // a Read returns at most seg[i] bytes, i counting the Reads (nil: whatever is there)
	segi   int
}

func newHalf() *half { h := &half{}; h.cond = sync.NewCond(&h.mu); return h }
func (h *half) Write(p []byte) (int, error) {
	h.mu.Lock()
	defer h.mu.Unlock()
	if h.err != nil {
		return 0, h.err
	}
	if h.closed {
		return 0, net.ErrClosed
	}
	h.buf = append(h.buf, p...)
	h.total += len(p)
	h.cond.Broadcast()
	return len(p), nil
}
func (h *half) Read(p []byte) (int, error) {
	h.mu.Lock()
	defer h.mu.Unlock()
	for len(h.buf) == 0 && !h.closed && h.err == nil {
		h.cond.Wait()
	}
	if len(h.buf) == 0 {
		if h.err != nil {
			return 0, h.err
		}
		return 0, io.EOF
	}
	// a carrier hands stream data over in pieces of its own choosing (QUIC: STREAM frame by STREAM frame): with a plan, a Read
	// returns at most the next planned number of bytes, so that frame headers get cut at every position sooner or later
	if len(h.seg) > 0 {
		if m := h.seg[h.segi%len(h.seg)]; m < len(p) {
			p = p[:m]
		}
		h.segi++
	}
	n := copy(p, h.buf)
	h.buf = h.buf[n:]
	return n, nil
}
func (h *half) Close()       { h.mu.Lock(); h.closed = true; h.cond.Broadcast(); h.mu.Unlock() }
func (h *half) Fail(e error) { h.mu.Lock(); h.err = e; h.cond.Broadcast(); h.mu.Unlock() }
func (h *half) Total() int   { h.mu.Lock(); defer h.mu.Unlock(); return h.total }

// fakeStream implements quic.Stream and http3.Stream.
type fakeStream struct {
	id   quic.StreamID
	r, w *half
	ctx  context.Context
}

func (s *fakeStream) StreamID() quic.StreamID     { return s.id }
func (s *fakeStream) Read(p []byte) (int, error)  { return s.r.Read(p) }
func (s *fakeStream) Write(p []byte) (int, error) { return s.w.Write(p) }
func (s *fakeStream) Close() error                { s.w.Close(); return nil }
func (s *fakeStream) CancelRead(c quic.StreamErrorCode) {
	s.r.Fail(&quic.StreamError{StreamID: s.id, ErrorCode: c})
}
func (s *fakeStream) CancelWrite(c quic.StreamErrorCode) {
	s.w.Fail(&quic.StreamError{StreamID: s.id, ErrorCode: c})
}
func (s *fakeStream) Context() context.Context         { return s.ctx }
func (s *fakeStream) SetDeadline(time.Time) error      { return nil }
func (s *fakeStream) SetReadDeadline(time.Time) error  { return nil }
func (s *fakeStream) SetWriteDeadline(time.Time) error { return nil }
func (s *fakeStream) SendDatagram([]byte) error        { return nil }
func (s *fakeStream) ReceiveDatagram(ctx context.Context) ([]byte, error) {
	<-ctx.Done()
	return nil, ctx.Err()
}

// wtStream adapts a fakeStream to webtransport.Stream (client perspective).
type wtStream struct{ *fakeStream }

func (s *wtStream) CancelRead(c webtransport.StreamErrorCode) {
	s.fakeStream.CancelRead(quic.StreamErrorCode(c))
}
func (s *wtStream) CancelWrite(c webtransport.StreamErrorCode) {
	s.fakeStream.CancelWrite(quic.StreamErrorCode(c))
}

type memAddr string

func (a memAddr) Network() string { return "mem" }
func (a memAddr) String() string  { return string(a) }

// fakeConn implements quic.Connection and http3.Connection.
type fakeConn struct {
	ctx      context.Context
	settings chan struct{}
}

var errNo = errors.New("fake quic connection: not supported")

func (c *fakeConn) AcceptStream(ctx context.Context) (quic.Stream, error) { return nil, errNo }
func (c *fakeConn) AcceptUniStream(ctx context.Context) (quic.ReceiveStream, error) {
	return nil, errNo
}
func (c *fakeConn) OpenStream() (quic.Stream, error)                           { return nil, errNo }
func (c *fakeConn) OpenStreamSync(context.Context) (quic.Stream, error)        { return nil, errNo }
func (c *fakeConn) OpenUniStream() (quic.SendStream, error)                    { return nil, errNo }
func (c *fakeConn) OpenUniStreamSync(context.Context) (quic.SendStream, error) { return nil, errNo }
func (c *fakeConn) LocalAddr() net.Addr                                        { return memAddr("local") }
func (c *fakeConn) RemoteAddr() net.Addr                                       { return memAddr("remote:1") }
func (c *fakeConn) CloseWithError(quic.ApplicationErrorCode, string) error     { return nil }
func (c *fakeConn) Context() context.Context                                   { return c.ctx }
func (c *fakeConn) ConnectionState() quic.ConnectionState                      { return quic.ConnectionState{} }
func (c *fakeConn) SendDatagram([]byte) error                                  { return nil }
func (c *fakeConn) ReceiveDatagram(ctx context.Context) ([]byte, error) {
	<-ctx.Done()
	return nil, ctx.Err()
}
func (c *fakeConn) ReceivedSettings() <-chan struct{} { return c.settings }
func (c *fakeConn) Settings() *http3.Settings {
	return &http3.Settings{EnableDatagrams: true, EnableExtendedConnect: true}
}

// fakeRW is the http.ResponseWriter of the CONNECT request.
type fakeRW struct {
	mu   sync.Mutex
	hdr  http.Header
	code int
	body []byte
	conn *fakeConn
	str  *fakeStream
}

func (w *fakeRW) Header() http.Header { return w.hdr }
func (w *fakeRW) Write(p []byte) (int, error) {
	w.mu.Lock()
	defer w.mu.Unlock()
	if w.code == 0 {
		w.code = 200
	}
	w.body = append(w.body, p...)
	return len(p), nil
}
func (w *fakeRW) WriteHeader(c int) {
	w.mu.Lock()
	defer w.mu.Unlock()
	if w.code == 0 {
		w.code = c
	}
}
func (w *fakeRW) Flush()                       {}
func (w *fakeRW) Connection() http3.Connection { return w.conn }
func (w *fakeRW) HTTPStream() http3.Stream     { return w.str }
func (w *fakeRW) Code() int                    { w.mu.Lock(); defer w.mu.Unlock(); return w.code }

// fakeH3 is one fake QUIC connection with a webtransport.Server on top.
type fakeH3 struct {
	WT      *webtransport.Server
	conn    *fakeConn
	cancel  context.CancelFunc
	tid     quic.ConnectionTracingID
	nextID  quic.StreamID
	mu      sync.Mutex
	lastRW  *fakeRW
	lastReq *fakeStream
	sess    *webtransport.Session
}

var tracingSeq uint64
var wtConnSeq int // (WebTransport connections of the process, all bubbles: every other one gets the segmenting carrier)

func newFakeH3() *fakeH3 {
	tracingSeq++
	tid := quic.ConnectionTracingID(tracingSeq)
	ctx := context.WithValue(context.Background(), quic.ConnectionTracingKey, tid)
	ctx, cancel := context.WithCancel(ctx)
	settings := make(chan struct{})
	close(settings)
	h := &fakeH3{
		WT:     &webtransport.Server{CheckOrigin: func(*http.Request) bool { return true }},
		conn:   &fakeConn{ctx: ctx, settings: settings},
		cancel: cancel, tid: tid,
	}
	h.WT.ServeQUICConn(h.conn) // returns at once (OpenUniStream fails) after building the session manager
	return h
}

// wtRequest is one extended-CONNECT request plus the client's bidirectional data stream.
type wtRequest struct {
	Req    *http.Request
	RW     *fakeRW
	Cancel context.CancelFunc
	Client *wtStream // client end of the data stream
	reqStr *fakeStream
	c2s    *half
	s2c    *half
}

// newRequest prepares a CONNECT request for rawURL whose session id is a fresh request-stream id and
// announces one client-initiated bidirectional stream for it to the server's stream hijacker.
func (h *fakeH3) newRequest(rawURL string, hdr http.Header, openStream bool) *wtRequest {
	h.mu.Lock()
	reqID := h.nextID
	h.nextID += 4
	dataID := h.nextID
	h.nextID += 4
	h.mu.Unlock()
	reqStr := &fakeStream{id: reqID, r: newHalf(), w: newHalf(), ctx: h.conn.ctx}
	c2s, s2c := newHalf(), newHalf()
	// what the client writes reaches the server in pieces: every other WebTransport connection of a process gets a carrier that
	// cuts the stream into small, uneven segments (frame headers are cut at every position sooner or later)
	wtConnSeq++
	if wtConnSeq%2 == 0 {
		c2s.seg = []int{1, 1, 2, 1, 3, 2, 5, 1, 64, 1, 1, 1000, 2, 1, 7}
	}
	u, _ := url.Parse(rawURL)
	if hdr == nil {
		hdr = http.Header{}
	}
	hdr.Set("Sec-Webtransport-Http3-Draft02", "1")
	req := &http.Request{Method: http.MethodConnect, Proto: "webtransport", URL: u, Header: hdr, Host: u.Host, RemoteAddr: "remote:1"}
	rctx, rcancel := context.WithCancel(context.Background())
	req = req.WithContext(rctx)
	rw := &fakeRW{hdr: http.Header{}, conn: h.conn, str: reqStr}
	r := &wtRequest{Req: req, RW: rw, Cancel: rcancel, reqStr: reqStr, c2s: c2s, s2c: s2c,
		Client: &wtStream{&fakeStream{id: dataID, r: s2c, w: c2s, ctx: h.conn.ctx}}}
	if openStream {
		dataStr := &fakeStream{id: dataID, r: c2s, w: s2c, ctx: h.conn.ctx}
		c2s.Write(quicvarint.Append(nil, uint64(reqID))) // WebTransport stream header: session id
		go h.WT.H3.StreamHijacker(0x41, h.tid, dataStr, nil)
	}
	h.mu.Lock()
	h.lastRW, h.lastReq = rw, reqStr
	h.mu.Unlock()
	return r
}

// session upgrades a request directly and returns the real session (for webtransport.Conn tests).
func (h *fakeH3) session(t *testing.T) *webtransport.Session {
	r := h.newRequest("https://example.com/engine.io/?EIO=4&transport=webtransport", nil, false)
	s, err := h.WT.Upgrade(r.RW, r.Req)
	if err != nil {
		t.Fatalf("fake h3 upgrade: %v", err)
	}
	h.sess = s
	return s
}

// sessionClosed reports whether the last session was closed (its context is done).
func (h *fakeH3) sessionClosed() bool {
	if h.sess == nil {
		return false
	}
	select {
	case <-h.sess.Context().Done():
		return true
	default:
		return false
	}
}

func (h *fakeH3) shutdown() {
	h.mu.Lock()
	rs := h.lastReq
	h.mu.Unlock()
	if rs != nil {
		rs.r.Close()
		rs.w.Close()
	}
	if h.sess != nil {
		h.sess.CloseWithError(0, "")
	}
	h.cancel()
	h.WT.Close()
}
