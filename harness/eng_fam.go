package harness

import (
	"fmt"
	"math/rand"
	"sync"
	"testing"
	"testing/synctest"
	"time"

	"github.com/zishang520/engine.io/v2/config"
	"github.com/zishang520/engine.io/v2/types"
)

// ---- engine-level scenario families. Every scenario records the same event vocabulary, so the
// TLA+ monitor EioMon.tla evaluates ALL session-level properties on every trace.

type EngCfg struct {
	PI, PT, UT time.Duration
	MaxBuf     int64
	Transports []string
	AllowUpg   *bool
	EIO3       bool
	WT         bool // enable the webtransport transport as well
}

func (c EngCfg) options() *config.ServerOptions {
	o := &config.ServerOptions{}
	if c.PI > 0 {
		o.SetPingInterval(c.PI)
	}
	if c.PT > 0 {
		o.SetPingTimeout(c.PT)
	}
	if c.UT > 0 {
		o.SetUpgradeTimeout(c.UT)
	}
	if c.MaxBuf > 0 {
		o.SetMaxHttpBufferSize(c.MaxBuf)
	}
	if c.Transports != nil {
		o.SetTransports(types.NewSet(c.Transports...))
	} else if c.WT {
		o.SetTransports(types.NewSet("polling", "websocket", "webtransport"))
	}
	if c.AllowUpg != nil {
		o.SetAllowUpgrades(*c.AllowUpg)
	}
	o.SetAllowEIO3(c.EIO3)
	return o
}

func us(d time.Duration) int64 { return int64(d / time.Microsecond) }

func (w *World) LogCfg(c EngCfg) {
	pi, pt, ut := c.PI, c.PT, c.UT
	if pi == 0 {
		pi = 25 * time.Second
	}
	if pt == 0 {
		pt = 20 * time.Second
	}
	if ut == 0 {
		ut = 10 * time.Second
	}
	mb := c.MaxBuf
	if mb == 0 {
		mb = 1000000
	}
	w.rec.Log("cfg", "pi", us(pi), "pt", us(pt), "ut", us(ut), "maxbuf", mb, "eio3", c.EIO3)
}

func newEngWorld(t *testing.T, rec *Rec, g *Gates, c EngCfg) *World {
	w := NewWorld(t, rec, g, WorldOpts{Opts: c.options()})
	w.LogCfg(c)
	return w
}

// ---------------------------------------------------------------- conformant client actors

// Policy decides how the client answers heartbeats.
type Policy struct {
	PongDelay func(n int) time.Duration // delay before answering the n-th server ping; <0 = never
	DupPong   bool
	PingEvery time.Duration // v3: client ping period (0 = never)
	MaxPings  int
}

// PollClient keeps one poll outstanding and answers pings per policy until the session ends.
type PollClient struct {
	w    *World
	S    *Sess
	pol  Policy
	mu   sync.Mutex
	stop bool
	npng int
	last *Req
}

func (w *World) StartPollClient(s *Sess, pol Policy) *PollClient {
	c := &PollClient{w: w, S: s, pol: pol}
	go c.loop()
	if s.Proto == 3 && pol.PingEvery > 0 {
		go c.v3pinger()
	}
	return c
}

func (c *PollClient) Stop() { c.mu.Lock(); c.stop = true; c.mu.Unlock() }
func (c *PollClient) stopped() bool {
	c.mu.Lock()
	defer c.mu.Unlock()
	return c.stop
}

func (c *PollClient) loop() {
	for !c.stopped() {
		r := c.w.Poll(c.S)
		c.mu.Lock()
		c.last = r
		c.mu.Unlock()
		<-r.done
		if r.Status != 200 || c.stopped() {
			return
		}
		for _, p := range r.Pkts {
			switch p.Type {
			case "close":
				return
			case "ping":
				c.npng++
				n := c.npng
				if c.pol.PongDelay != nil {
					if d := c.pol.PongDelay(n); d >= 0 {
						go func() {
							time.Sleep(d)
							if c.stopped() {
								return
							}
							c.w.Post(c.S, []Pkt{{Type: "pong"}}, ReqOpt{})
							if c.pol.DupPong {
								time.Sleep(time.Millisecond)
								c.w.Post(c.S, []Pkt{{Type: "pong"}}, ReqOpt{})
							}
						}()
					}
				}
			}
		}
	}
}

func (c *PollClient) v3pinger() {
	for i := 0; c.pol.MaxPings == 0 || i < c.pol.MaxPings; i++ {
		time.Sleep(c.pol.PingEvery)
		if c.stopped() {
			return
		}
		r := c.w.Post(c.S, []Pkt{{Type: "ping"}}, ReqOpt{})
		<-r.done
		if r.Status != 200 {
			return
		}
	}
}

// ---------------------------------------------------------------- family "beat" (C07)

func beatScenario(name string, seed int64) Scenario {
	return Scenario{Name: name, Run: func(t *testing.T, rec *Rec, g *Gates) {
		r := rand.New(rand.NewSource(seed))
		pis := []time.Duration{300 * time.Millisecond, 25 * time.Second, 2 * time.Second}
		pts := []time.Duration{200 * time.Millisecond, 20 * time.Second, 5 * time.Second}
		cfg := EngCfg{PI: pis[r.Intn(3)], PT: pts[r.Intn(3)], EIO3: true}
		w := newEngWorld(t, rec, g, cfg)
		proto := 4
		if r.Intn(3) == 0 {
			proto = 3
		}
		useWS := r.Intn(3) == 0
		// client behaviour on a grid around the deadlines
		grid := []time.Duration{0, cfg.PT / 2, cfg.PT - time.Microsecond, cfg.PT, cfg.PT + time.Microsecond, -1}
		mode := r.Intn(len(grid))
		failAt := 1 + r.Intn(3) // which ping gets the "mode" treatment; earlier ones are answered promptly
		pol := Policy{PongDelay: func(n int) time.Duration {
			if n < failAt {
				return time.Duration(r.Intn(3)) * cfg.PT / 4
			}
			return grid[mode]
		}, DupPong: r.Intn(5) == 0}
		horizon := time.Duration(failAt+2)*(cfg.PI+cfg.PT) + time.Second
		if useWS {
			s := &Sess{Proto: proto}
			var on func(*WSClient, Pkt)
			if proto == 4 {
				on = wsPonger(pol)
			}
			c := w.DialWS(s, "", nil, on)
			synctest.Wait()
			if proto != 4 {
				go wsV3Pinger(w, c, cfg, r.Intn(4), mode)
			}
			if r.Intn(4) == 0 { // other traffic
				go func() {
					for i := 0; i < 3; i++ {
						time.Sleep(cfg.PI / 3)
						if s.Sid != "" && w.Sock(s.Sid) != nil {
							w.Send(s.Sid, SendOpt{})
						}
					}
				}()
			}
		} else {
			s, _ := w.Handshake(proto, r.Intn(4) == 0, false, ReqOpt{})
			if s.Sid == "" {
				w.Finish()
				return
			}
			if r.Intn(3) == 0 {
				// a conformant upgrade right after opening (before the first ping): the heartbeat must go on on the new transport
				// (revision 3: the switch cancels the pending deadline - upstream design -, the client's next ping arms a new one)
				var on func(*WSClient, Pkt)
				if proto == 4 {
					on = wsPonger(pol)
				}
				cand := w.DialWS(s, "", nil, on)
				synctest.Wait()
				cand.SendPkt(Pkt{Type: "ping", Data: []byte("probe")})
				synctest.Wait()
				cand.SendPkt(Pkt{Type: "upgrade"})
				synctest.Wait()
				if proto != 4 {
					go wsV3Pinger(w, cand, cfg, 1+r.Intn(3), mode)
				}
				for el := time.Duration(0); el < horizon; el += cfg.PI / 2 {
					time.Sleep(cfg.PI / 2)
					w.Snapshot()
				}
				w.Finish()
				return
			}
			if proto == 3 {
				pol.PingEvery = []time.Duration{cfg.PI, cfg.PI / 2, cfg.PI + cfg.PT - time.Microsecond, cfg.PI + cfg.PT, cfg.PI + cfg.PT + time.Microsecond, 0}[mode]
				pol.MaxPings = failAt
			}
			pc := w.StartPollClient(s, pol)
			if r.Intn(4) == 0 {
				go func() {
					for i := 0; i < 3; i++ {
						time.Sleep(cfg.PI / 3)
						w.Send(s.Sid, SendOpt{})
					}
				}()
			}
			if r.Intn(6) == 0 && proto == 4 { // unsolicited pong before the first ping
				go func() {
					time.Sleep(cfg.PI / 2)
					w.Post(s, []Pkt{{Type: "pong"}}, ReqOpt{})
				}()
			}
			if r.Intn(8) == 0 { // wrong-direction heartbeat
				go func() {
					time.Sleep(cfg.PI / 4)
					ty := "ping"
					if proto == 3 {
						ty = "pong"
					}
					w.Post(s, []Pkt{{Type: ty}}, ReqOpt{})
				}()
			}
			defer pc.Stop()
		}
		for el := time.Duration(0); el < horizon; el += cfg.PI / 2 {
			time.Sleep(cfg.PI / 2)
			w.Snapshot()
		}
		w.Finish()
	}}
}

// wsPonger answers the n-th server ping per policy.
func wsPonger(pol Policy) func(*WSClient, Pkt) {
	n := 0
	return func(c *WSClient, p Pkt) {
		if p.Type != "ping" {
			return
		}
		n++
		if pol.PongDelay == nil {
			return
		}
		if d := pol.PongDelay(n); d >= 0 {
			go func() {
				time.Sleep(d)
				c.SendPkt(Pkt{Type: "pong"})
				if pol.DupPong {
					c.SendPkt(Pkt{Type: "pong"})
				}
			}()
		}
	}
}

func wsV3Pinger(w *World, c *WSClient, cfg EngCfg, good int, mode int) {
	for i := 0; i < good; i++ {
		time.Sleep(cfg.PI)
		if c.SendPkt(Pkt{Type: "ping"}) != nil {
			return
		}
	}
	gaps := []time.Duration{cfg.PI / 2, cfg.PI + cfg.PT - time.Microsecond, cfg.PI + cfg.PT, cfg.PI + cfg.PT + time.Microsecond, 0, 0}
	if gaps[mode] > 0 {
		time.Sleep(gaps[mode])
		c.SendPkt(Pkt{Type: "ping"})
	}
}

func beatScenarios(seed int64, n int) []Scenario {
	var out []Scenario
	for i := 0; i < n; i++ {
		out = append(out, beatScenario(fmt.Sprintf("beat%d_%d", seed, i), seed*7919+int64(i)))
	}
	return out
}
