package harness

import (
	"os"
	"runtime"
	"strings"
	"testing"
	"time"
)

// TestFamily is the single entry point: VERIF_FAMILY selects the driver,
// VERIF_BEHAVIOURS a JSON file of TLC behaviours to replay, VERIF_OUT the
// output directory, VERIF_FROM the first scenario index (resume after a wedge).
func TestFamily(t *testing.T) {
	fam := os.Getenv("VERIF_FAMILY")
	if fam == "" {
		t.Skip("VERIF_FAMILY not set")
	}
	runtime.GOMAXPROCS(1)
	out := OpenOut(fam)
	defer out.Close(fam)
	behs := LoadBehaviours(os.Getenv("VERIF_BEHAVIOURS"))
	seed := Seed()
	var scs []Scenario
	switch fam {
	case "timer":
		scs = timerScenarios(behs, seed, EnvInt("VERIF_NRANDOM", 200))
	case "beat":
		scs = beatScenarios(seed, EnvInt("VERIF_NRANDOM", 40))
	case "flow", "life", "upg", "poll":
		scs = append(replayFamily(behs), scriptFamily(fam, seed, EnvInt("VERIF_NRANDOM", 40))...)
	case "dreq": // data requests as goroutines of their own: model behaviours, and the poll scripts under another seed
		scs = append(replayFamily(behs), scriptFamily("poll", seed+7, EnvInt("VERIF_NRANDOM", 40))...)
	case "reg":
		scs = regFamily(behs)
	case "cons":
		scs = consFamily(behs)
	case "upgr":
		scs = upgrFamily(behs)
	case "hctx":
		scs = hctxFamily(behs)
	case "grace":
		scs = graceFamily()
	case "direct":
		scs = directFamily()
	case "race":
		runtime.GOMAXPROCS(8)
		scs = raceFamily(seed, EnvInt("VERIF_NRANDOM", 6))
	case "reent":
		scs = reentFamily()
	case "limit":
		scs = limitFamily(seed, EnvInt("VERIF_NRANDOM", 40))
	case "host":
		scs = hostileFamily(seed, EnvInt("VERIF_NRANDOM", 40))
	case "hr":
		scs = hrScenarios(behs, "")
	case "hs":
		scs = hsScenarios(behs)
	case "rt":
		scs = rtScenarios(behs)
	case "cont":
		runtime.GOMAXPROCS(4)
		scs = contScenarios(behs, seed, EnvInt("VERIF_NRANDOM", 60))
	case "lin":
		runtime.GOMAXPROCS(4)
		scs = linScenarios(seed, EnvInt("VERIF_NRANDOM", 60))
	case "wtw":
		scs = wtwScenarios(behs, seed, EnvInt("VERIF_NRANDOM", 100))
	case "wtr":
		scs = wtrScenarios(seed, EnvInt("VERIF_NRANDOM", 200))
	default:
		t.Fatalf("unknown family %q", fam)
	}
	from := EnvInt("VERIF_FROM", 0)
	budget := time.Duration(EnvInt("VERIF_WALL_S", 8)) * time.Second
	only := os.Getenv("VERIF_ONLY") // development aid: run only the scenarios whose name contains this string
	for i, sc := range scs {
		if i < from || (only != "" && !strings.Contains(sc.Name, only)) {
			continue
		}
		RunScenario(t, out, i, sc, budget)
	}
}
