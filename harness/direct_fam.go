package harness

import (
	"net/url"
	"fmt"
	"math/rand"
	"runtime"
	"testing"
	"time"
)

// ---- family "direct": enumerated windows. Where the random scripts would need luck, these scenarios walk a small
// product space exhaustively: one goroutine is parked at a yield point (verif hook, listener gate, debug-log gate,
// response-writer gate), an independent event is injected, the goroutine is released. All judged by EioMon.

// yield lets every runnable goroutine run until it blocks (GOMAXPROCS is 1), WITHOUT waiting for quiescence: used when
// a goroutine is expected to block on a sync.Mutex held by a parked goroutine (not durably blocked for synctest.Wait).
func yield() {
	for i := 0; i < 200; i++ {
		runtime.Gosched()
	}
}

type directEnv struct {
	w   *World
	sc  *Script
	c   *cliSess
	sid string
	g   *Gates
}

func newDirect(t *testing.T, rec *Rec, g *Gates, cfg EngCfg, kind string) *directEnv {
	w := newEngWorld(t, rec, g, cfg)
	sc := &Script{w: w, r: rand.New(rand.NewSource(1)), cfg: cfg, W: map[string]int{}}
	var c *cliSess
	if kind == "websocket" {
		s := &Sess{Proto: 4}
		c = &cliSess{S: s, Kind: "websocket", autoPong: true}
		c.ws = w.DialWS(s, "", nil, func(wc *WSClient, p Pkt) { sc.processPkts(c, []Pkt{p}, wc) })
	} else {
		s, _ := w.Handshake(4, false, false, ReqOpt{})
		c = &cliSess{S: s, Kind: "polling", autoPong: true}
	}
	sc.ss = append(sc.ss, c)
	sc.settle()
	return &directEnv{w: w, sc: sc, c: c, sid: c.S.Sid, g: g}
}

func (d *directEnv) finish() {
	d.g.StopParking()
	d.g.ReleaseAll()
	d.sc.settle()
	d.w.Snapshot()
	d.sc.Drain()
	d.w.Finish()
}

// cause injects one independent close cause (or a plain event) for the session.
func (d *directEnv) cause(kind string) {
	w, sc, c, sid := d.w, d.sc, d.c, d.sid
	switch kind {
	case "none":
	case "pollabort":
		if c.poll != nil {
			w.Cause(sid, "error")
			w.Abort(c.poll)
		}
	case "peerclose":
		w.Cause(sid, "peer")
		w.Cause(sid, "error")
		if c.Kind == "polling" {
			w.Post(c.S, []Pkt{{Type: "close"}}, ReqOpt{})
		} else if c.ws != nil {
			c.ws.CloseFrame()
		}
	case "drop":
		w.Cause(sid, "peer")
		w.Cause(sid, "error")
		if c.ws != nil {
			c.ws.Drop()
		} else if c.poll != nil {
			w.Abort(c.poll)
		}
	case "overlap":
		w.Cause(sid, "error")
		if c.Kind == "polling" {
			if c.poll == nil {
				c.poll = w.StartReq("poll", c.S, ReqOpt{})
				sc.wait()
			}
			w.StartReq("poll", c.S, ReqOpt{})
		}
	case "overlappost":
		w.Cause(sid, "error")
		if c.Kind == "polling" {
			w.Post(c.S, []Pkt{w.ClientMsg(4, false, 0)}, ReqOpt{})
		}
	case "closenow":
		go w.Close(sid, true)
	case "close":
		go w.Close(sid, false)
	case "srvclose":
		go w.ServerClose()
	case "pingtimeout":
		w.g.Sleep(d.sc.cfg.PI + d.sc.cfg.PT + 10*time.Millisecond)
	case "send":
		go w.Send(sid, SendOpt{Size: 5})
	case "poll":
		if c.Kind == "polling" {
			sc.doPoll(c)
		}
	case "wrongdir":
		w.Cause(sid, "error")
		if c.Kind == "polling" {
			w.Post(c.S, []Pkt{{Type: "ping"}}, ReqOpt{})
		} else if c.ws != nil {
			c.ws.SendPkt(Pkt{Type: "ping"})
		}
	}
}

// (1) C03 / C12: an application Close parked at each of its yield points x an independent cause x release
var closePoints = []string{"socket.close.tested", "log:readyState updated from %s to %s", "log:closing the transport (discard? %t)",
	"log:the buffer is empty, closing the transport right away", "log:closing", "socket.onclose.tested", "L.close",
	"log:transport not writable - buffering orderly close", "log:transport writable - closing right away"}
var closeCauses = []string{"none", "pollabort", "peerclose", "drop", "overlap", "closenow", "close", "srvclose", "pingtimeout", "send", "wrongdir"}

func closeWinScenario(name, kind, point, cause string, discard, pendingPoll, buffered bool) Scenario {
	return Scenario{Name: name, Run: func(t *testing.T, rec *Rec, g *Gates) {
		cfg := EngCfg{PI: 2 * time.Second, PT: time.Second}
		d := newDirect(t, rec, g, cfg, kind)
		if d.sid == "" {
			d.w.Finish()
			return
		}
		if pendingPoll {
			d.sc.doPoll(d.c)
			d.sc.settle()
		}
		if buffered {
			d.w.Send(d.sid, SendOpt{Size: 5})
			d.sc.settle()
		}
		g.Park(point, true)
		go d.w.Close(d.sid, discard)
		d.sc.settle()
		parked := g.Parked(point) > 0
		g.Park(point, false) // only the Close under study parks
		if cause == "pingtimeout" {
			// the window is instantaneous: let the deadline pass first, then open the window again is not possible;
			// instead the timeout is made to fall INTO the window by parking, sleeping with pass-through gates
			g.ReleaseAll()
		}
		d.cause(cause)
		d.sc.settle()
		if parked {
			g.ReleaseAll()
		}
		d.sc.settle()
		d.finish()
	}}
}

// (1b) C12: a graceful Close that has seen packets pending but has not yet registered its "drain" listener, while the
// flush that empties the buffer runs to completion (missed wake-up): the client then keeps polling and must be sent the
// close packet; the session ends with "forced close", not at the next heartbeat deadline.
const closeWaitPoint = "log:there are %d remaining packets in the buffer, waiting for the 'drain' event"

func closeDrainScenario(name, kind string, viaFlushWin, wait bool) Scenario {
	return Scenario{Name: name, Run: func(t *testing.T, rec *Rec, g *Gates) {
		cfg := EngCfg{PI: 25 * time.Second, PT: 20 * time.Second}
		d := newDirect(t, rec, g, cfg, kind)
		if d.sid == "" {
			d.w.Finish()
			return
		}
		w, sc, c := d.w, d.sc, d.c
		if viaFlushWin {
			// a flush in progress holds the batch (its flush listeners are running) when Close looks
			if kind == "polling" {
				sc.doPoll(c)
				sc.settle()
			}
			g.Park("L.flush", true)
			go w.Send(d.sid, SendOpt{Size: 5})
			sc.settle()
			g.Park("L.flush", false)
		} else {
			w.Send(d.sid, SendOpt{Size: 5}) // buffered: no poll is pending
			sc.settle()
		}
		g.Park(closeWaitPoint, true)
		go w.Close(d.sid, false)
		sc.settle()
		g.Park(closeWaitPoint, false)
		if viaFlushWin {
			g.Release("L.flush") // the batch is handed over and "drain" is emitted: nobody listens yet
		} else {
			sc.doPoll(c) // the poll takes the buffer: flush, drain
		}
		sc.settle()
		g.ReleaseAll() // Close goes on: registers its listener
		sc.settle()
		for i := 0; i < 3 && !c.dead; i++ {
			sc.doPoll(c)
			sc.settle()
		}
		if wait { // no expectation stated: the lingering session meets the heartbeat deadline
			w.g.Sleep(cfg.PI + cfg.PT + time.Second)
			sc.settle()
		} else {
			w.Expect(d.sid, "drained")
			w.Expect(d.sid, "closed")
		}
		d.finish()
	}}
}

// (2) C11: a data request held inside the application's message listener x what ends the session meanwhile x slow response writer
func dreqScenario(name, closer string, slowWriter, pendingPoll bool) Scenario {
	return Scenario{Name: name, Run: func(t *testing.T, rec *Rec, g *Gates) {
		cfg := EngCfg{PI: 25 * time.Second, PT: 20 * time.Second}
		d := newDirect(t, rec, g, cfg, "polling")
		if d.sid == "" {
			d.w.Finish()
			return
		}
		if pendingPoll {
			d.sc.doPoll(d.c)
			d.sc.settle()
		}
		g.Park("L.message", true)
		p1 := d.w.Post(d.c.S, []Pkt{d.w.ClientMsg(5, false, 0)}, ReqOpt{})
		d.c.posts = append(d.c.posts, p1)
		d.sc.settle() // POST#1 is inside the message listener
		g.Park("L.message", false)
		if slowWriter {
			g.Park("rw.write", true)
		}
		d.cause(closer)
		if slowWriter {
			yield() // the closer is now inside its response write (429 to POST#1), holding the context's lock
			g.Park("rw.write", false)
			g.Release("L.message") // the handler goes on to acknowledge POST#1 and meets the lock
			yield()
			g.ReleaseAll()
		} else {
			d.sc.settle()
			g.ReleaseAll()
		}
		d.sc.settle()
		d.finish()
	}}
}

// (3) C08: two candidates; B is held between the server's admission tests and MaybeUpgrade while A progresses
func upg2Scenario(name, holdAt string, releaseAfter int, bFollows bool) Scenario {
	return Scenario{Name: name, Run: func(t *testing.T, rec *Rec, g *Gates) {
		cfg := EngCfg{PI: 25 * time.Second, PT: 20 * time.Second, UT: 5 * time.Second}
		d := newDirect(t, rec, g, cfg, "polling")
		if d.sid == "" {
			d.w.Finish()
			return
		}
		w, sc, c := d.w, d.sc, d.c
		// stage 0: B dials and is parked
		g.Park(holdAt, true)
		b := w.DialWS(c.S, "", nil, nil)
		sc.settle()
		g.Park(holdAt, false)
		stage := 0
		release := func() {
			if stage == releaseAfter {
				g.ReleaseAll()
				sc.settle()
			}
			stage++
		}
		release() // 0: before A exists
		a := w.DialWS(c.S, "", nil, nil)
		sc.settle()
		release() // 1: A attached
		if !a.closed {
			a.SendPkt(Pkt{Type: "ping", Data: []byte("probe")})
			sc.settle()
		}
		release() // 2: A probed
		if !a.closed {
			a.SendPkt(Pkt{Type: "upgrade"})
			sc.settle()
			if so := w.Sock(d.sid); so != nil && so.Upgraded() {
				c.Kind, c.ws = "websocket", a
				a.OnPkt = func(wc *WSClient, p Pkt) { sc.processPkts(c, []Pkt{p}, wc) }
			}
		}
		release() // 3: A upgraded
		g.ReleaseAll()
		sc.settle()
		if bFollows && !b.closed {
			b.SendPkt(Pkt{Type: "ping", Data: []byte("probe")})
			sc.settle()
			if !b.closed {
				b.SendPkt(Pkt{Type: "upgrade"})
				sc.settle()
			}
		}
		// the session must still work on whatever transport it is on
		go w.Send(d.sid, SendOpt{Size: 5})
		sc.settle()
		if c.Kind == "websocket" && c.ws != nil && !c.ws.closed {
			c.ws.SendPkt(w.ClientMsg(5, false, 0))
			sc.settle()
		}
		d.finish()
	}}
}

// (3b) C08: a second candidate that arrives while the first candidate's upgrade packet is being handled - the handling goroutine held
// right after it has released the "upgrading" flag (upgrade.switching), inside the old transport's DoClose (log:closing), inside the
// "upgrade" listeners (L.upgrade). The late candidate must be closed without being probed; the session switches once.
func upgSwitchWinScenario(name, kind, point string, bFollows bool) Scenario {
	return Scenario{Name: name, Run: func(t *testing.T, rec *Rec, g *Gates) {
		cfg := EngCfg{PI: 25 * time.Second, PT: 20 * time.Second, UT: 5 * time.Second, WT: true}
		d := newDirect(t, rec, g, cfg, "polling")
		if d.sid == "" {
			d.w.Finish()
			return
		}
		w, sc, c := d.w, d.sc, d.c
		dial := func() *WSClient {
			if kind == "webtransport" {
				return w.DialWT(c.S, nil)
			}
			return w.DialWS(c.S, "", nil, nil)
		}
		a := dial()
		sc.settle()
		a.SendPkt(Pkt{Type: "ping", Data: []byte("probe")})
		sc.settle()
		// (the check interval releases a pending poll; none is pending here)
		g.Park(point, true)
		a.SendPkt(Pkt{Type: "upgrade"})
		sc.settle()
		g.Park(point, false)
		held := g.Parked(point) > 0
		b := dial()
		sc.settle()
		if bFollows && !b.closed {
			b.SendPkt(Pkt{Type: "ping", Data: []byte("probe")})
			sc.settle()
		}
		g.ReleaseAll()
		sc.settle()
		if so := w.Sock(d.sid); so != nil && so.Upgraded() {
			c.Kind, c.ws = "websocket", a
			a.OnPkt = func(wc *WSClient, p Pkt) { sc.processPkts(c, []Pkt{p}, wc) }
		}
		if bFollows && !b.closed {
			b.SendPkt(Pkt{Type: "upgrade"})
			sc.settle()
		}
		rec.Log("note", "held", held)
		w.Expect(d.sid, "upgraded")
		w.Expect(d.sid, "notupgrading")
		// the session must still work on the transport it switched to
		go w.Send(d.sid, SendOpt{Size: 5})
		sc.settle()
		if c.Kind == "websocket" && c.ws != nil && !c.ws.closed {
			c.ws.SendPkt(w.ClientMsg(5, false, 0))
			sc.settle()
		}
		w.Expect(d.sid, "open")
		w.Expect(d.sid, "drained")
		w.Expect(d.sid, "delivered")
		d.finish()
	}}
}

// (4) C08 / C12: an upgrade completing on a session in each state of a graceful close
func upgCloseScenario(name string, closeAt int, discard bool, buffered int, pendingPoll bool) Scenario {
	return Scenario{Name: name, Run: func(t *testing.T, rec *Rec, g *Gates) {
		cfg := EngCfg{PI: 25 * time.Second, PT: 20 * time.Second, UT: 5 * time.Second}
		d := newDirect(t, rec, g, cfg, "polling")
		if d.sid == "" {
			d.w.Finish()
			return
		}
		w, sc, c := d.w, d.sc, d.c
		stage := 0
		maybeClose := func() {
			if stage == closeAt {
				for i := 0; i < buffered; i++ {
					w.Send(d.sid, SendOpt{Size: 5})
				}
				w.Close(d.sid, discard)
				sc.settle()
			}
			stage++
		}
		if pendingPoll {
			sc.doPoll(c)
			sc.settle()
		}
		maybeClose() // 0: before the candidate
		a := w.DialWS(c.S, "", nil, nil)
		sc.settle()
		maybeClose() // 1: candidate attached
		if !a.closed {
			a.SendPkt(Pkt{Type: "ping", Data: []byte("probe")})
			sc.settle()
		}
		w.g.Sleep(100 * time.Millisecond) // a pending poll is released by the check
		sc.settle()
		maybeClose() // 2: probed
		if !a.closed {
			a.SendPkt(Pkt{Type: "upgrade"})
			sc.settle()
			if so := w.Sock(d.sid); so != nil && so.Upgraded() && !a.closed {
				c.Kind, c.ws = "websocket", a
				a.OnPkt = func(wc *WSClient, p Pkt) { sc.processPkts(c, []Pkt{p}, wc) }
			}
		}
		maybeClose() // 3: upgraded
		sc.settle()
		if so := w.Sock(d.sid); so != nil && closeAt <= 3 && !discard && buffered == 0 {
			// a graceful close with nothing buffered on a transport that can carry the close at once ends the session
			// (on polling it may wait for the next poll: the client polls)
			if c.Kind == "polling" {
				for i := 0; i < 3 && !c.dead; i++ {
					sc.doPoll(c)
					sc.settle()
				}
			}
		}
		d.finish()
	}}
}

// (5) C07 / C12: a session that is closing gracefully with data buffered and a silent peer ends at the heartbeat deadline
func beatCloseScenario(name string, closeAfterPing bool, proto int) Scenario {
	return Scenario{Name: name, Run: func(t *testing.T, rec *Rec, g *Gates) {
		cfg := EngCfg{PI: 300 * time.Millisecond, PT: 200 * time.Millisecond, EIO3: true}
		w := newEngWorld(t, rec, g, cfg)
		sc := &Script{w: w, r: rand.New(rand.NewSource(1)), cfg: cfg, W: map[string]int{}}
		s, _ := w.Handshake(proto, false, false, ReqOpt{})
		c := &cliSess{S: s, Kind: "polling"}
		sc.ss = append(sc.ss, c)
		sc.settle()
		if s.Sid == "" {
			w.Finish()
			return
		}
		if closeAfterPing {
			sc.doPoll(c) // the ping goes out on this poll; the client then falls silent
			sc.settle()
			w.g.Sleep(cfg.PI + 100*time.Millisecond)
		} else {
			w.g.Sleep(100 * time.Millisecond)
		}
		sc.settle()
		w.Send(s.Sid, SendOpt{Size: 5}) // no poll pending: stays buffered
		w.Close(s.Sid, false)           // waits for a drain that never comes
		sc.settle()
		w.g.Sleep(2 * (cfg.PI + cfg.PT))
		sc.settle()
		w.Expect(s.Sid, "closed")
		w.Snapshot()
		w.Finish()
	}}
}

// (6) C18: a batch carrying two callbacks; the first callback sends another message with a callback and takes its time
func cbOrderScenario(name, kind string) Scenario {
	return Scenario{Name: name, Run: func(t *testing.T, rec *Rec, g *Gates) {
		cfg := EngCfg{PI: 25 * time.Second, PT: 20 * time.Second}
		d := newDirect(t, rec, g, cfg, kind)
		if d.sid == "" {
			d.w.Finish()
			return
		}
		w, sc, c := d.w, d.sc, d.c
		fired := false
		w.Hook("cb", func(sid string, _ ...any) {
			if fired {
				return
			}
			fired = true
			w.Send(sid, SendOpt{Size: 5, Cb: true})
		})
		writer := "ws.send.enter"
		if kind == "polling" {
			writer = "polling.send.enter"
		}
		g.Park(writer, true)
		if kind == "websocket" {
			go w.Send(d.sid, SendOpt{Size: 4}) // occupies the transport
			sc.settle()
		}
		go w.Send(d.sid, SendOpt{Size: 4, Cb: true})
		sc.settle()
		go w.Send(d.sid, SendOpt{Size: 4, Cb: true})
		sc.settle()
		g.Park("L.cb", true)
		if kind == "polling" {
			sc.doPoll(c)
			sc.settle()
		}
		for i := 0; i < 6; i++ { // let the writers go one by one; the first callback parks, whatever else can run runs
			g.Release(writer)
			sc.settle()
			if kind == "polling" && c.poll == nil {
				sc.doPoll(c)
				sc.settle()
			}
		}
		g.Park("L.cb", false)
		g.Park(writer, false)
		g.ReleaseAll()
		sc.settle()
		d.finish()
	}}
}

// (7) C02 / C10: the payload limit is a limit per message: many small messages, adding up to far more, all arrive
func manySmallScenario(name, kind string, upgraded bool) Scenario {
	return Scenario{Name: name, Run: func(t *testing.T, rec *Rec, g *Gates) {
		cfg := EngCfg{PI: 25 * time.Second, PT: 20 * time.Second, MaxBuf: 500, WT: true}
		w := newEngWorld(t, rec, g, cfg)
		sc := &Script{w: w, r: rand.New(rand.NewSource(1)), cfg: cfg, W: map[string]int{}}
		dial := func(s *Sess, on func(*WSClient, Pkt)) *WSClient {
			if kind == "webtransport" {
				return w.DialWT(s, on)
			}
			return w.DialWS(s, "", nil, on)
		}
		var c *cliSess
		if upgraded {
			s, _ := w.Handshake(4, false, false, ReqOpt{})
			c = &cliSess{S: s, Kind: "polling", autoPong: true}
			sc.ss = append(sc.ss, c)
			cand := dial(s, nil)
			sc.settle()
			cand.SendPkt(Pkt{Type: "ping", Data: []byte("probe")})
			sc.settle()
			cand.SendPkt(Pkt{Type: "upgrade"})
			sc.settle()
			if so := w.Sock(s.Sid); so != nil && so.Upgraded() {
				c.Kind, c.ws = "websocket", cand
				cand.OnPkt = func(wc *WSClient, p Pkt) { sc.processPkts(c, []Pkt{p}, wc) }
			}
		} else if kind == "polling" {
			s, _ := w.Handshake(4, false, false, ReqOpt{})
			c = &cliSess{S: s, Kind: "polling", autoPong: true}
			sc.ss = append(sc.ss, c)
		} else {
			s := &Sess{Proto: 4}
			c = &cliSess{S: s, Kind: "websocket", autoPong: true}
			c.ws = dial(s, func(wc *WSClient, p Pkt) { sc.processPkts(c, []Pkt{p}, wc) })
			sc.ss = append(sc.ss, c)
		}
		sc.settle()
		if c.S.Sid == "" {
			w.Finish()
			return
		}
		for i := 0; i < 40; i++ {
			m := w.ClientMsg(100+i%50, i%3 == 0, 0)
			if c.Kind == "polling" {
				c.posts = append(c.posts, w.Post(c.S, []Pkt{m}, ReqOpt{}))
			} else {
				c.ws.SendPkt(m)
			}
			sc.settle()
			if i%10 == 9 {
				w.Expect(c.S.Sid, "open")
				w.Expect(c.S.Sid, "delivered")
			}
		}
		sc.Drain()
		w.Finish()
	}}
}

// (8) C03 / C08: a candidate that falls silent (before or after its probe): the upgrade timeout closes the candidate only
func candSilentScenario(name, kind string, probe, pendingPoll bool) Scenario {
	return Scenario{Name: name, Run: func(t *testing.T, rec *Rec, g *Gates) {
		cfg := EngCfg{PI: 25 * time.Second, PT: 20 * time.Second, UT: 2 * time.Second, WT: true}
		d := newDirect(t, rec, g, cfg, "polling")
		if d.sid == "" {
			d.w.Finish()
			return
		}
		w, sc, c := d.w, d.sc, d.c
		if pendingPoll {
			sc.doPoll(c)
			sc.settle()
		}
		var cand *WSClient
		if kind == "webtransport" {
			cand = w.DialWT(c.S, nil)
		} else {
			cand = w.DialWS(c.S, "", nil, nil)
		}
		sc.settle()
		if probe {
			cand.SendPkt(Pkt{Type: "ping", Data: []byte("probe")})
			sc.settle()
		}
		w.g.Sleep(cfg.UT + 500*time.Millisecond) // the candidate says nothing more
		sc.settle()
		w.Expect(d.sid, "open")
		w.Expect(d.sid, "notupgrading")
		// the session is fully usable on its original transport
		go w.Send(d.sid, SendOpt{Size: 6})
		sc.settle()
		if c.poll == nil || c.poll.Status != 0 {
			c.poll = nil
			sc.doPoll(c)
			sc.settle()
		}
		c.posts = append(c.posts, w.Post(c.S, []Pkt{w.ClientMsg(5, false, 0)}, ReqOpt{}))
		sc.settle()
		w.Expect(d.sid, "open")
		d.finish()
	}}
}

// (9) C01: a broadcast: one pre-encoded frame in one shared options value sent to several sessions, more than once
func broadcastScenario(name string, bin bool) Scenario {
	return Scenario{Name: name, Run: func(t *testing.T, rec *Rec, g *Gates) {
		cfg := EngCfg{PI: 25 * time.Second, PT: 20 * time.Second, WT: true}
		w := newEngWorld(t, rec, g, cfg)
		sc := &Script{w: w, r: rand.New(rand.NewSource(1)), cfg: cfg, W: map[string]int{}}
		var sids []string
		add := func(c *cliSess) {
			sc.ss = append(sc.ss, c)
			sc.settle()
			if c.S.Sid != "" {
				sids = append(sids, c.S.Sid)
			}
		}
		for i := 0; i < 2; i++ {
			s := &Sess{Proto: 4}
			c := &cliSess{S: s, Kind: "websocket", autoPong: true}
			c.ws = w.DialWS(s, "", nil, func(wc *WSClient, p Pkt) { sc.processPkts(c, []Pkt{p}, wc) })
			add(c)
		}
		{
			s := &Sess{Proto: 4}
			c := &cliSess{S: s, Kind: "websocket", autoPong: true}
			c.ws = w.DialWT(s, func(wc *WSClient, p Pkt) { sc.processPkts(c, []Pkt{p}, wc) })
			add(c)
		}
		{
			s, _ := w.Handshake(4, false, false, ReqOpt{})
			c := &cliSess{S: s, Kind: "polling", autoPong: true}
			add(c)
			sc.doPoll(c)
			sc.settle()
		}
		for round := 0; round < 2; round++ {
			w.Broadcast(sids, 12+round, bin)
			sc.settle()
			for _, sid := range sids {
				go w.Send(sid, SendOpt{Size: 5})
			}
			sc.settle()
			for _, c := range sc.ss {
				if c.Kind == "polling" && (c.poll == nil || c.poll.Status != 0) {
					c.poll = nil
					sc.doPoll(c)
				}
			}
			sc.settle()
		}
		sc.Drain()
		w.Finish()
	}}
}

// (10) C03 / C04 / C09: the constructor window of a session on a stream transport. The handshaking goroutine is held at one of its
// yield points - inside SetReadyState("open") (listeners attached, state still "opening"), at the flush / drain of the open
// packet, after the constructor, after the table entry, after the registry's close listener - while the peer's connection fails
// or closes (the transport's reader goroutine is running from the transport's construction on). What the application is handed
// afterwards must be open (not a session whose transport was already gone), the table must end up without it, and whatever
// happens the state never goes back.
const openLogPoint = "log:readyState updated from %s to %s"

func openWinScenario(name, kind, point, fault string) Scenario {
	return Scenario{Name: name, Run: func(t *testing.T, rec *Rec, g *Gates) {
		cfg := EngCfg{PI: 2 * time.Second, PT: time.Second, WT: true}
		w := newEngWorld(t, rec, g, cfg)
		sc := &Script{w: w, r: rand.New(rand.NewSource(1)), cfg: cfg, W: map[string]int{}}
		// a bystander
		s0, _ := w.Handshake(4, false, false, ReqOpt{})
		c0 := &cliSess{S: s0, Kind: "polling", autoPong: true}
		sc.ss = append(sc.ss, c0)
		sc.settle()
		nconn, trsAtConn := 0, ""
		w.Hook("connection", func(sid string, _ ...any) {
			nconn++
			if so := w.Sock(sid); so != nil && so.Transport() != nil {
				trsAtConn = so.Transport().ReadyState()
			}
		})
		g.Park(point, true)
		s := &Sess{Proto: 4}
		c := &cliSess{S: s, Kind: "websocket", autoPong: true}
		if kind == "webtransport" {
			c.ws = w.DialWT(s, func(wc *WSClient, p Pkt) { sc.processPkts(c, []Pkt{p}, wc) })
		} else {
			c.ws = w.DialWS(s, "", nil, func(wc *WSClient, p Pkt) { sc.processPkts(c, []Pkt{p}, wc) })
		}
		sc.ss = append(sc.ss, c)
		sc.settle()
		held := g.Parked(point) > 0
		g.Park(point, false) // (the same debug statement is passed again by OnClose: only the constructor is held)
		if held {
			if s.Sid != "" {
				w.Cause(s.Sid, "error")
				w.Cause(s.Sid, "peer")
			}
			if fault == "closeframe" {
				c.ws.CloseFrame()
			} else {
				c.ws.Drop()
			}
			c.dead = true
			sc.settle()
		}
		g.ReleaseAll()
		sc.settle()
		// whatever heartbeat a session left behind by the constructor would run
		sc.sleepAlive(cfg.PI + cfg.PT + time.Second)
		sc.settle()
		live := 0
		for _, k := range w.Srv.Clients().Keys() {
			if k != s0.Sid {
				live++
			}
		}
		rec.Log("openwin", "point", point, "fault", fault, "held", held, "handed", nconn > 0, "trs", trsAtConn, "left", live)
		w.Snapshot()
		sc.Drain()
		w.Finish()
	}}
}

// (11) C11: a response whose write FAILS (the peer is gone and nobody has noticed, or a write deadline has passed) is still the one
// response of its request: nobody writes to that request again, and its handler returns.
//   poll: a pending poll on a failing connection, then the application sends.
//   post: a data request on a failing connection whose message listener closes the session (the server's own 429 abort and the
//         handler's acknowledgement both want to answer it).
func failWriteScenario(name, which string, nfail int) Scenario {
	return Scenario{Name: name, Run: func(t *testing.T, rec *Rec, g *Gates) {
		cfg := EngCfg{PI: 25 * time.Second, PT: 20 * time.Second}
		d := newDirect(t, rec, g, cfg, "polling")
		if d.sid == "" {
			d.w.Finish()
			return
		}
		w, sc, c := d.w, d.sc, d.c
		w.Cause(d.sid, "error")
		var r *Req
		if which == "poll" {
			r = w.StartReq("poll", c.S, ReqOpt{FailWrites: nfail})
			sc.settle()
			// (for the monitor the client of this poll has gone away - the server has not been told)
			rec.Log("cli.abort", "rid", r.ID, "kind", r.Kind)
			go w.Send(d.sid, SendOpt{Size: 5})
			sc.settle()
		} else {
			w.Cause(d.sid, "app")
			w.Hook("message", func(sid string, _ ...any) {
				if so := w.Sock(sid); so != nil {
					so.Close(false)
				}
			})
			o := ReqOpt{FailWrites: nfail}
			r = w.Post(c.S, []Pkt{w.ClientMsg(5, false, 0)}, o)
			rec.Log("cli.abort", "rid", r.ID, "kind", r.Kind)
			sc.settle()
		}
		w.mu.Lock()
		ret, nwh := r.returned, r.rr.nWriteHdr
		w.mu.Unlock()
		rec.Log("failwrite", "which", which, "rid", r.ID, "returned", ret, "nwh", nwh)
		c.dead = true // (this client's connection is broken: it is not a client that keeps reading)
		w.Snapshot()
		w.ServerClose()
		sc.settle()
		w.Finish()
	}}
}

// (12) C08: a "candidate" that is none: a WebSocket (upgrade) request naming the session but the POLLING transport, or an unknown
// transport. Whatever the server makes of it, the session is not left marked as upgrading, the connection does not stay open on the
// server's side, and a candidate that follows the protocol afterwards completes the switch.
func candBogusScenario(name, transport string, pendingPoll bool) Scenario {
	return Scenario{Name: name, Run: func(t *testing.T, rec *Rec, g *Gates) {
		cfg := EngCfg{PI: 25 * time.Second, PT: 20 * time.Second, UT: 5 * time.Second}
		d := newDirect(t, rec, g, cfg, "polling")
		if d.sid == "" {
			d.w.Finish()
			return
		}
		w, sc, c := d.w, d.sc, d.c
		if pendingPoll {
			sc.doPoll(c)
			sc.settle()
		}
		bogus := w.dialWSQuery(c.S, "EIO=4&transport="+transport+"&sid="+url.QueryEscape(d.sid), nil, nil)
		sc.settle()
		if !bogus.closed {
			bogus.SendPkt(Pkt{Type: "ping", Data: []byte("probe")})
			sc.settle()
		}
		w.Expect(d.sid, "notupgrading")
		// a real candidate right away (not after the upgrade timeout)
		a := w.DialWS(c.S, "", nil, nil)
		sc.settle()
		if !a.closed {
			a.SendPkt(Pkt{Type: "ping", Data: []byte("probe")})
			sc.settle()
			g.SleepArmed(150 * time.Millisecond) // the check interval releases a pending poll
			sc.settle()
			if c.poll != nil && c.poll.Status != 0 {
				c.poll = nil
			}
			if c.poll == nil {
				a.SendPkt(Pkt{Type: "upgrade"})
				sc.settle()
				if so := w.Sock(d.sid); so != nil && so.Upgraded() {
					c.Kind, c.ws = "websocket", a
					a.OnPkt = func(wc *WSClient, p Pkt) { sc.processPkts(c, []Pkt{p}, wc) }
				}
			}
		}
		w.Expect(d.sid, "upgraded")
		// past the upgrade timeout: whatever was made of the bogus connection, the server has let go of it
		sc.sleepAlive(cfg.UT + time.Second)
		rec.Log("candbogus", "transport", transport, "stillOpen", !bogus.closed, "status", bogus.Status)
		w.Expect(d.sid, "open")
		d.finish()
	}}
}

// (13) C07: a heartbeat packet that arrives in the tick window of the timer it refreshes - the runtime timer has fired, its goroutine
// is held before the timer's mutex (yield point timer.fired) - while the packet is accepted and the timer refreshed. The tick is
// then stale: a revision-3 session must not be closed by the deadline its ping has just moved, a revision-4 session must not send
// the ping a pong has just postponed. (The tick is known not to have reached the mutex: the expectation is exact here.)
func beatTickWinScenario(name string, proto int, kind string) Scenario {
	return Scenario{Name: name, Run: func(t *testing.T, rec *Rec, g *Gates) {
		cfg := EngCfg{PI: 2 * time.Second, PT: time.Second, EIO3: true}
		w := newEngWorld(t, rec, g, cfg)
		sc := &Script{w: w, r: rand.New(rand.NewSource(1)), cfg: cfg, W: map[string]int{}}
		var c *cliSess
		if kind == "websocket" {
			s := &Sess{Proto: proto}
			c = &cliSess{S: s, Kind: "websocket"}
			c.ws = w.DialWS(s, "", nil, func(wc *WSClient, p Pkt) { sc.processPkts(c, []Pkt{p}, wc) })
		} else {
			s, _ := w.Handshake(proto, false, false, ReqOpt{})
			c = &cliSess{S: s, Kind: "polling"}
		}
		sc.ss = append(sc.ss, c)
		sc.settle()
		sid := c.S.Sid
		if sid == "" {
			w.Finish()
			return
		}
		send := func(ty string) {
			if c.ws != nil {
				c.ws.SendPkt(Pkt{Type: ty})
			} else {
				w.Post(c.S, []Pkt{{Type: ty}}, ReqOpt{})
			}
			sc.settle()
		}
		g.Park("timer.fired", true)
		// revision 3: the deadline (interval + timeout after opening) fires; revision 4: the ping timer (one interval after opening)
		due := cfg.PI + cfg.PT
		hb := "ping"
		if proto == 4 {
			due, hb = cfg.PI, "pong"
		}
		g.SleepArmed(due)
		sc.settle()
		held := g.Parked("timer.fired")
		g.Park("timer.fired", false)
		send(hb) // accepted: refreshes the very timer whose tick is held
		g.ReleaseAll()
		sc.settle()
		so := w.Sock(sid)
		rec.Log("tickwin", "proto", proto, "held", held, "closed", so == nil || so.ReadyState() == "closed")
		w.Expect(sid, "open")
		// from here on an ordinary silent peer: the session ends at its (moved) deadline, which the monitor's heartbeat clauses check
		w.g.Sleep(2*(cfg.PI+cfg.PT) + time.Second)
		sc.settle()
		w.Expect(sid, "closed")
		w.Snapshot()
		w.Finish()
	}}
}

// (14) C08: a candidate that follows the protocol sends its probe as soon as its connection is open. The transport's reader
// goroutine runs from the transport's construction on, the packet listener that answers the probe is attached by MaybeUpgrade
// later: the goroutine serving the candidate's request is held in between (upgrade.gated). The probe must not be lost - the
// candidate must be answered and must be able to complete the switch without waiting for the upgrade timeout.
func probeEarlyScenario(name, kind string, pendingPoll bool) Scenario {
	return Scenario{Name: name, Run: func(t *testing.T, rec *Rec, g *Gates) {
		cfg := EngCfg{PI: 25 * time.Second, PT: 20 * time.Second, UT: 5 * time.Second, WT: true}
		d := newDirect(t, rec, g, cfg, "polling")
		if d.sid == "" {
			d.w.Finish()
			return
		}
		w, sc, c := d.w, d.sc, d.c
		if pendingPoll {
			sc.doPoll(c)
			sc.settle()
		}
		g.Park("upgrade.gated", true)
		var a *WSClient
		if kind == "webtransport" {
			a = w.DialWT(c.S, nil)
		} else {
			a = w.DialWS(c.S, "", nil, nil)
		}
		sc.settle()
		held := g.Parked("upgrade.gated") > 0
		g.Park("upgrade.gated", false)
		if !a.closed {
			a.SendPkt(Pkt{Type: "ping", Data: []byte("probe")}) // at once, as engine.io-client does
			sc.settle()
		}
		g.ReleaseAll()
		sc.settle()
		g.SleepArmed(150 * time.Millisecond) // the check interval releases a pending poll
		sc.settle()
		if c.poll != nil && c.poll.Status != 0 {
			c.poll = nil
		}
		probed := false
		w.rec.mu.Lock()
		for _, e := range w.rec.events {
			if e["e"] == "cli.ws.recv" {
				if pk, ok := e["pk"].(map[string]any); ok && pk["ty"] == "pong" && e["cid"] == a.ID {
					probed = true
				}
			}
		}
		w.rec.mu.Unlock()
		if probed && !a.closed && c.poll == nil {
			a.SendPkt(Pkt{Type: "upgrade"})
			sc.settle()
			if so := w.Sock(d.sid); so != nil && so.Upgraded() {
				c.Kind, c.ws = "websocket", a
				a.OnPkt = func(wc *WSClient, p Pkt) { sc.processPkts(c, []Pkt{p}, wc) }
			}
		}
		rec.Log("probeearly", "held", held, "probed", probed, "kind", kind)
		w.Expect(d.sid, "upgraded")
		w.Expect(d.sid, "open")
		d.finish()
	}}
}

// (15) C02: a message the client sends as soon as it has read the open packet. The session is open, and on a stream transport its
// reader is running, while the handshaking goroutine is still on its way to the connection event (held at one of its yield
// points): the message event is emitted before the application has been handed the session, i.e. before it could register a
// listener. (Listed as a known finding: see known-findings.json.)
func earlyMsgScenario(name, kind, point string) Scenario {
	return Scenario{Name: name, Run: func(t *testing.T, rec *Rec, g *Gates) {
		cfg := EngCfg{PI: 25 * time.Second, PT: 20 * time.Second, WT: true}
		w := newEngWorld(t, rec, g, cfg)
		sc := &Script{w: w, r: rand.New(rand.NewSource(1)), cfg: cfg, W: map[string]int{}}
		g.Park(point, true)
		s := &Sess{Proto: 4}
		c := &cliSess{S: s, Kind: "websocket", autoPong: true}
		if kind == "webtransport" {
			c.ws = w.DialWT(s, func(wc *WSClient, p Pkt) { sc.processPkts(c, []Pkt{p}, wc) })
		} else {
			c.ws = w.DialWS(s, "", nil, func(wc *WSClient, p Pkt) { sc.processPkts(c, []Pkt{p}, wc) })
		}
		sc.ss = append(sc.ss, c)
		sc.settle()
		held := g.Parked(point) > 0
		g.Park(point, false)
		sent, id := false, 0
		if held && s.Sid != "" && !c.ws.closed { // the client has read the open packet
			m := w.ClientMsg(6, false, 0)
			id = parseMsgID("c", m.Data)
			c.ws.SendPkt(m)
			sent = true
			sc.settle()
		}
		g.ReleaseAll()
		sc.settle()
		delivered := rec.CountWhere(func(e Ev) bool { return e["e"] == "sock.message" && e["id"] == id }) > 0
		rec.Log("earlymsg", "sid", s.Sid, "kind", kind, "point", point, "held", held, "sent", sent, "delivered", delivered)
		if s.Sid != "" {
			w.Expect(s.Sid, "open")
		}
		w.Snapshot()
		sc.Drain()
		w.Finish()
	}}
}

func directFamily() []Scenario {
	var out []Scenario
	for _, kind := range []string{"websocket", "webtransport"} {
		for _, point := range []string{"S.drain", "handshake.constructed", "handshake.stored", "handshake.listening"} {
			out = append(out, earlyMsgScenario(fmt.Sprintf("earlymsg_%s_%s", kind, shortPoint(point)), kind, point))
		}
	}
	for _, kind := range []string{"websocket", "webtransport"} {
		for _, pp := range []bool{false, true} {
			out = append(out, probeEarlyScenario(fmt.Sprintf("probeearly_%s_pp%v", kind, pp), kind, pp))
		}
	}
	for _, proto := range []int{3, 4} {
		for _, kind := range []string{"polling", "websocket"} {
			out = append(out, beatTickWinScenario(fmt.Sprintf("beattick_%d_%s", proto, kind), proto, kind))
		}
	}
	for _, tr := range []string{"polling", "nosuch"} {
		for _, pp := range []bool{false, true} {
			out = append(out, candBogusScenario(fmt.Sprintf("candbogus_%s_pp%v", tr, pp), tr, pp))
		}
	}
	for _, which := range []string{"poll", "post"} {
		for _, n := range []int{1, 100} {
			out = append(out, failWriteScenario(fmt.Sprintf("failwrite_%s_%d", which, n), which, n))
		}
	}
	for _, kind := range []string{"websocket", "webtransport"} {
		for _, point := range []string{"upgrade.switching", "log:closing", "L.upgrade"} {
			for _, follows := range []bool{false, true} {
				out = append(out, upgSwitchWinScenario(fmt.Sprintf("upgswitch_%s_%s_f%v", kind, shortPoint(point), follows), kind, point, follows))
			}
		}
	}
	for _, kind := range []string{"websocket", "webtransport"} {
		for _, point := range []string{openLogPoint, "S.flush", "S.drain", "handshake.constructed", "handshake.stored", "handshake.listening"} {
			for _, fault := range []string{"drop", "closeframe"} {
				out = append(out, openWinScenario(fmt.Sprintf("openwin_%s_%s_%s", kind, shortPoint(point), fault), kind, point, fault))
			}
		}
	}
	out = append(out, broadcastScenario("broadcast_text", false), broadcastScenario("broadcast_binary", true))
	for _, kind := range []string{"websocket", "webtransport"} {
		for _, probe := range []bool{false, true} {
			for _, pp := range []bool{false, true} {
				out = append(out, candSilentScenario(fmt.Sprintf("candsilent_%s_p%v_pp%v", kind, probe, pp), kind, probe, pp))
			}
		}
	}
	for _, kind := range []string{"polling", "websocket", "webtransport"} {
		for _, up := range []bool{false, true} {
			if kind == "polling" && up {
				continue
			}
			out = append(out, manySmallScenario(fmt.Sprintf("manysmall_%s_u%v", kind, up), kind, up))
		}
	}
	// (websocket only: the polling transport runs send callbacks under its send mutex, parking one there stalls the next send)
	out = append(out, cbOrderScenario("cborder_websocket", "websocket"))
	for _, after := range []bool{false, true} {
		for _, proto := range []int{4, 3} {
			out = append(out, beatCloseScenario(fmt.Sprintf("beatclose_after%v_v%d", after, proto), after, proto))
		}
	}
	for _, wait := range []bool{false, true} {
		out = append(out, closeDrainScenario(fmt.Sprintf("closedrain_polling_buffered_w%v", wait), "polling", false, wait),
			closeDrainScenario(fmt.Sprintf("closedrain_polling_flushwin_w%v", wait), "polling", true, wait),
			closeDrainScenario(fmt.Sprintf("closedrain_websocket_flushwin_w%v", wait), "websocket", true, wait))
	}
	for _, kind := range []string{"polling", "websocket"} {
		for _, point := range closePoints {
			for _, cause := range closeCauses {
				for _, discard := range []bool{false, true} {
					for _, pp := range []bool{false, true} {
						if kind == "websocket" && (pp || cause == "pollabort" || cause == "overlap") {
							continue
						}
						buffered := !pp && !discard
						out = append(out, closeWinScenario(fmt.Sprintf("cw_%s_%s_%s_d%v_p%v", kind, shortPoint(point), cause, discard, pp),
							kind, point, cause, discard, pp, buffered))
					}
				}
			}
		}
	}
	for _, closer := range []string{"overlappost", "closenow", "close", "srvclose", "pollabort", "peerclose", "overlap", "wrongdir"} {
		for _, slow := range []bool{false, true} {
			for _, pp := range []bool{true, false} {
				out = append(out, dreqScenario(fmt.Sprintf("dreq_%s_slow%v_p%v", closer, slow, pp), closer, slow, pp))
			}
		}
	}
	for _, hold := range []string{"upgrade.gated", "log:upgrading existing transport"} {
		for rel := 0; rel <= 4; rel++ {
			for _, follows := range []bool{true, false} {
				out = append(out, upg2Scenario(fmt.Sprintf("upg2_%s_r%d_f%v", shortPoint(hold), rel, follows), hold, rel, follows))
			}
		}
	}
	for closeAt := 0; closeAt <= 3; closeAt++ {
		for _, discard := range []bool{false, true} {
			for buffered := 0; buffered <= 1; buffered++ {
				for _, pp := range []bool{false, true} {
					out = append(out, upgCloseScenario(fmt.Sprintf("upgclose_at%d_d%v_b%d_p%v", closeAt, discard, buffered, pp), closeAt, discard, buffered, pp))
				}
			}
		}
	}
	return out
}

func shortPoint(p string) string {
	out := []byte{}
	for i := 0; i < len(p) && len(out) < 24; i++ {
		ch := p[i]
		if (ch >= 'a' && ch <= 'z') || (ch >= 'A' && ch <= 'Z') || (ch >= '0' && ch <= '9') {
			out = append(out, ch)
		}
	}
	return string(out)
}
