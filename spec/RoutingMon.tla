----------------------------- MODULE RoutingMon -----------------------------
(* Validates the recorded outcome of every routing/admission cell against the *)
(* decision table Routing.tla.                                                *)
EXTENDS Routing
CONSTANT TraceFile
Trace == ndJsonDeserialize(TraceFile)
VARIABLES l, viol, ncells, unspec, done
mvars == <<l, viol, ncells, unspec, done, cell>>
MInit == l = 1 /\ viol = <<>> /\ ncells = 0 /\ unspec = 0 /\ done = FALSE /\ cell = 0
Step == LET e == Trace[l] IN
        /\ l <= Len(Trace) /\ l' = l + 1 /\ done' = FALSE /\ UNCHANGED cell
        /\ IF e.e = "rt.cell"
           THEN LET ok == CASE e.cell.kind = "route" -> RouteObsOK(e.cell, e.obs) [] e.cell.kind = "wtadmit" -> WtObsOK(e.cell, e.obs)
                                  [] OTHER -> AdmitObsOK(e.cell, e.obs)
                    want == CASE e.cell.kind = "route" -> [engine |-> Routed(e.cell.attach, PathOf(e.cell.shape, Mount(e.cell.attach).segs))]
                              [] e.cell.kind = "wtadmit" -> [x |-> 0]
                              [] OTHER -> Verdict(e.cell, CfgOf(e.cell))
                IN /\ viol' = IF ok THEN viol ELSE Append(viol, [scn |-> e.scn, line |-> l, prop |-> "C05",
                                                                  clause |-> IF e.cell.kind = "route" THEN "routing" ELSE "admission",
                                                                  cell |-> e.cell, obs |-> e.obs, want |-> want])
                   /\ ncells' = ncells + 1
                   /\ unspec' = IF e.cell.kind = "admit" /\ Unspecified(e.cell, CfgOf(e.cell)) THEN unspec + 1 ELSE unspec
           ELSE IF e.e \in {"bubble.panic", "wedged", "process.died"}
           THEN viol' = Append(viol, [scn |-> "", line |-> l, prop |-> "C05", clause |-> e.e]) /\ UNCHANGED <<ncells, unspec>>
           ELSE UNCHANGED <<viol, ncells, unspec>>
Finish == /\ l = Len(Trace) + 1 /\ ~done /\ done' = TRUE
          /\ PrintT("VIOLS " \o ToJson(viol)) /\ PrintT("LINES " \o ToString(Len(Trace)))
          /\ PrintT("NONCONF " \o ToJson(<<[cells |-> ncells, unspecified |-> unspec]>>))
          /\ UNCHANGED <<l, viol, ncells, unspec, cell>>
MSpec == MInit /\ [][Step \/ Finish]_mvars
=============================================================================
