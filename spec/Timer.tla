------------------------------- MODULE Timer -------------------------------
(* utils/timer.go at goroutine grain (property C19), as repaired.             *)
(*                                                                            *)
(* One Timer object of kind Kind ("timeout" | "interval") and period P.       *)
(* The implementation arms a runtime timer (time.AfterFunc) for a GENERATION; *)
(* Stop and Refresh start a new generation under the timer's mutex; the       *)
(* goroutine a fired runtime timer starts compares its generation with the    *)
(* current one under the same mutex and does nothing if it is stale.          *)
(* Each step is what the Go code does between two synchronisation points:     *)
(*   RtFire      the runtime timer expires: a goroutine is started for its    *)
(*               generation (yield point timer.fired: not yet at the mutex)   *)
(*   Process(g)  that goroutine takes the mutex: stale -> nothing; else       *)
(*               (interval: re-arm) (timeout: spent), unlock, run fn          *)
(*   Stop        lock; gen++; runtime timer stopped; unlock                   *)
(*   Refresh     lock; gen++; runtime timer stopped and armed anew; unlock    *)
(* Deviations:                                                                *)
(*   "NoGen"      Process does not look at the generation (a tick that fired  *)
(*                before a Stop/Refresh still runs and re-arms): the defect   *)
(*                class of the implementation as found (KF-C19-tickwindow)    *)
(*   "StopKeepsArmed"  Stop changes the generation but leaves the runtime     *)
(*                timer armed (harmless for callbacks, leaves a timer behind) *)
EXTENDS Integers, Sequences, FiniteSets, TLC, Json, TimerContract

CONSTANTS Kind, P, Callers, MaxOps, MaxNow, Deviations

VARIABLES now, created, gen, armed, infl, ops,
          due, owed, cancelled, bad, hist

vars == <<now, created, gen, armed, infl, ops, due, owed, cancelled, bad, hist>>
view == <<now, created, gen, armed, infl, ops, due, owed, cancelled, bad>>

H(a) == hist' = Append(hist, a)
NoStops == {Off}        \* Stop is atomic now: no cancellation is ever "in progress"

\* armed: Off, or [at |-> instant, g |-> generation]; infl: sequence of generations of fired, not yet processed goroutines
Init == /\ now = 0 /\ created = FALSE /\ gen = 0 /\ armed = [at |-> Off, g |-> 0] /\ infl = <<>> /\ ops = 0
        /\ due = Off /\ owed = Off /\ cancelled = FALSE /\ bad = {} /\ hist = <<>>

Create == /\ ~created /\ created' = TRUE
          /\ armed' = [at |-> now + P, g |-> gen] /\ due' = now + P
          /\ H([a |-> "create", kind |-> Kind])
          /\ UNCHANGED <<now, gen, infl, ops, owed, cancelled, bad>>

RtFire == /\ armed.at # Off /\ armed.at <= now
          /\ armed' = [at |-> Off, g |-> armed.g] /\ infl' = Append(infl, armed.g)
          /\ H([a |-> "fire"])
          /\ UNCHANGED <<now, created, gen, ops, due, owed, cancelled, bad>>

\* the callback runs now: contract check + next due instant
Run == /\ bad' = IF RunLegal(due, owed, cancelled, NoStops, now) THEN bad
                 ELSE bad \cup {RunClause(due, owed, cancelled, NoStops, now)}
       /\ due' = DueAfterRun(Kind, P, due, owed, now)
       /\ owed' = Off

Remove(q, i) == SubSeq(q, 1, i - 1) \o SubSeq(q, i + 1, Len(q))
Process(i) ==
    /\ i \in 1..Len(infl)
    /\ infl' = Remove(infl, i)
    /\ IF infl[i] = gen \/ "NoGen" \in Deviations
       THEN /\ Run
            /\ IF Kind = "interval" THEN armed' = [at |-> now + P, g |-> gen] /\ UNCHANGED gen
               ELSE gen' = gen + 1 /\ UNCHANGED armed
            /\ H([a |-> "process", i |-> i, run |-> TRUE])
       ELSE /\ UNCHANGED <<gen, armed, due, owed, bad>>
            /\ H([a |-> "process", i |-> i, run |-> FALSE])
    /\ UNCHANGED <<now, created, ops, cancelled>>

Stop(c) == /\ created /\ ops < MaxOps
           /\ ops' = ops + 1
           /\ gen' = gen + 1
           /\ armed' = IF "StopKeepsArmed" \in Deviations THEN armed ELSE [at |-> Off, g |-> armed.g]
           /\ cancelled' = TRUE /\ due' = Off /\ owed' = Off
           /\ H([a |-> "stop", c |-> c])
           /\ UNCHANGED <<now, created, infl, bad>>

Refresh(c) == /\ created /\ ops < MaxOps
              /\ ops' = ops + 1
              /\ gen' = gen + 1
              /\ armed' = [at |-> now + P, g |-> gen + 1]
              /\ due' = now + P /\ cancelled' = FALSE /\ owed' = Off
              /\ H([a |-> "refresh", c |-> c])
              /\ UNCHANGED <<now, created, infl, bad>>

Urgent == (armed.at # Off /\ armed.at <= now) \/ infl # <<>>

Tick == /\ created /\ now < MaxNow /\ ~Urgent
        /\ now' = now + 1
        /\ bad' = IF Missed(due, NoStops, now + 1) THEN bad \cup {"missed"} ELSE bad
        /\ owed' = Off
        /\ H([a |-> "tick"])
        /\ UNCHANGED <<created, gen, armed, infl, ops, due, cancelled>>

Next == \/ Create \/ RtFire \/ Tick
        \/ \E i \in 1..3 : Process(i)
        \/ \E c \in Callers : Stop(c) \/ Refresh(c)

Spec == Init /\ [][Next]_vars

----------------------------------------------------------------------------
Quiet == ~Urgent

\* C19 clauses
C19_Runs      == bad = {}                                   \* once, at due time, never after cancel, none missed
\* nothing is left behind: at quiescence the runtime timer is armed exactly when a callback is due
C19_NoLeak    == Quiet => ((armed.at # Off) <=> (due # Off))
\* an armed runtime timer always belongs to the current generation (a stale one would fire a goroutine for nothing)
C19_ArmedIsCurrent == armed.at # Off => armed.g = gen
\* the inductive invariant of spec/TimerInd.tla (proved there for unbounded time and generations by Apalache), checked here too
\* on the bounded instances so that the two specifications are tied to each other
C19_Ind == /\ (armed.at # Off => (armed.g = gen /\ due = armed.at /\ ~cancelled /\ armed.at >= now /\ \A i \in DOMAIN infl : infl[i] # gen))
           /\ \A i \in DOMAIN infl : infl[i] = gen => (due = now /\ ~cancelled /\ armed.at = Off /\ \A j \in DOMAIN infl : infl[j] = gen => j = i)
           /\ (due # Off => (armed.at # Off \/ \E i \in DOMAIN infl : infl[i] = gen))
           /\ (cancelled => due = Off)
C19_StopPrompt == TRUE                                       \* Stop and Refresh are single critical sections: they never wait

\* behaviours for replay
Emit == (ops = MaxOps \/ now = MaxNow) => PrintT("BEHAVIOUR " \o ToJson(hist))
=============================================================================
