------------------------------- MODULE Timer -------------------------------
(* utils/timer.go at goroutine grain (property C19).                          *)
(*                                                                            *)
(* One Timer object of kind Kind ("timeout" | "interval") and period P.       *)
(* Go >= 1.23 timer-channel semantics: time.Timer.Stop / Reset drain a tick   *)
(* that was sent but not yet received and Stop then reports true.             *)
(* Each step is what the Go code does between two synchronisation points:     *)
(*   RtFire        runtime timer expires, tick offered on timer.C             *)
(*   TimeoutRecv   SetTimeout's goroutine receives the tick and runs fn       *)
(*   IntervalRecv  SetInterval's loop receives the tick        (hook          *)
(*   IntervalRearm ... and then Reset()s and spawns fn          timer.interval.ticked between) *)
(*   StopA/StopB   Timer.Stop: t.timer.Stop()  /  stopCh <- {} (hook timer.stop.stopped between) *)
(*   Refresh       Timer.Refresh (Stop, maybe `go t.fn()`, Reset) *)
(* Deviations: "TickWindow" in Deviations  <=> IntervalRecv and IntervalRearm *)
(* are separate steps (the code as it stands); otherwise they are one step    *)
(* (the repaired design).                                                     *)
EXTENDS Integers, Sequences, FiniteSets, TLC, Json, TimerContract

CONSTANTS Kind, P, Callers, MaxOps, MaxNow, Deviations

VARIABLES now, created, armed, chanFull, nSel, nTicked, pc, ops,
          due, owed, cancelled, stopAt, bad, tainted, hist

vars == <<now, created, armed, chanFull, nSel, nTicked, pc, ops,
          due, owed, cancelled, stopAt, bad, tainted, hist>>
view == <<now, created, armed, chanFull, nSel, nTicked, pc, ops,
          due, owed, cancelled, stopAt, bad, tainted>>

StopAts == {stopAt[c] : c \in Callers}
H(a) == hist' = Append(hist, a)

Init == /\ now = 0 /\ created = FALSE /\ armed = Off /\ chanFull = FALSE
        /\ nSel = 0 /\ nTicked = 0 /\ pc = [c \in Callers |-> "idle"] /\ ops = 0
        /\ due = Off /\ owed = Off /\ cancelled = FALSE /\ stopAt = [c \in Callers |-> Off]
        /\ bad = {} /\ tainted = FALSE /\ hist = <<>>

Create == /\ ~created /\ created' = TRUE
          /\ armed' = now + P /\ nSel' = 1 /\ due' = now + P
          /\ H([a |-> "create", kind |-> Kind])
          /\ UNCHANGED <<now, chanFull, nTicked, pc, ops, owed, cancelled, stopAt, bad, tainted>>

RtFire == /\ armed # Off /\ armed <= now
          /\ armed' = Off /\ chanFull' = TRUE
          /\ H([a |-> "fire"])
          /\ UNCHANGED <<now, created, nSel, nTicked, pc, ops, due, owed, cancelled, stopAt, bad, tainted>>

\* the callback runs now: contract check + next due instant
Run == /\ bad' = IF RunLegal(due, owed, cancelled, StopAts, now) THEN bad
                 ELSE bad \cup {RunClause(due, owed, cancelled, StopAts, now)}
       /\ due' = DueAfterRun(Kind, P, due, owed, now)
       /\ owed' = Off

TimeoutRecv == /\ Kind = "timeout" /\ chanFull /\ nSel > 0
               /\ chanFull' = FALSE /\ nSel' = nSel - 1
               /\ Run
               /\ H([a |-> "run"])
               /\ UNCHANGED <<now, created, armed, nTicked, pc, ops, cancelled, stopAt, tainted>>

IntervalRecv == /\ Kind = "interval" /\ "TickWindow" \in Deviations
                /\ chanFull /\ nSel > 0
                /\ chanFull' = FALSE /\ nSel' = nSel - 1 /\ nTicked' = nTicked + 1
                /\ H([a |-> "ticked"])
                /\ UNCHANGED <<now, created, armed, pc, ops, due, owed, cancelled, stopAt, bad, tainted>>

IntervalRearm == /\ nTicked > 0
                 /\ nTicked' = nTicked - 1 /\ nSel' = nSel + 1
                 /\ armed' = now + P /\ chanFull' = FALSE
                 /\ Run
                 /\ H([a |-> "rearm"])
                 /\ UNCHANGED <<now, created, pc, ops, cancelled, stopAt, tainted>>

IntervalAtomic == /\ Kind = "interval" /\ "TickWindow" \notin Deviations
                  /\ chanFull /\ nSel > 0
                  /\ armed' = now + P /\ chanFull' = FALSE
                  /\ Run
                  /\ H([a |-> "run"])
                  /\ UNCHANGED <<now, created, nSel, nTicked, pc, ops, cancelled, stopAt, tainted>>

NoRefreshRace == TRUE
StopRetEff(c) == /\ stopAt' = [stopAt EXCEPT ![c] = Off]
                 /\ cancelled' = TRUE /\ due' = Off /\ owed' = Off

StopA(c) == /\ created /\ pc[c] = "idle" /\ ops < MaxOps
            /\ ops' = ops + 1
            /\ tainted' = (tainted \/ nTicked > 0)
            /\ LET r == armed # Off \/ chanFull IN
               /\ armed' = Off /\ chanFull' = FALSE
               /\ IF r THEN /\ pc' = [pc EXCEPT ![c] = "stopB"]
                            /\ stopAt' = [stopAt EXCEPT ![c] = now]
                            /\ UNCHANGED <<cancelled, due, owed>>
                            /\ H([a |-> "stopA", c |-> c, r |-> TRUE])
                       ELSE /\ UNCHANGED pc
                            /\ StopRetEff(c)
                            /\ H([a |-> "stopA", c |-> c, r |-> FALSE])
            /\ UNCHANGED <<now, created, nSel, nTicked, bad>>

StopB(c) == /\ pc[c] = "stopB" /\ nSel > 0
            /\ nSel' = nSel - 1
            /\ pc' = [pc EXCEPT ![c] = "idle"]
            /\ StopRetEff(c)
            /\ H([a |-> "stopB", c |-> c])
            /\ UNCHANGED <<now, created, armed, chanFull, nTicked, ops, bad, tainted>>

\* Refresh concurrent with a Stop in progress has no defined outcome: not explored.
Refresh(c) == /\ created /\ pc[c] = "idle" /\ ops < MaxOps
              /\ \A d \in Callers : pc[d] = "idle"
              /\ ops' = ops + 1
              /\ tainted' = (tainted \/ nTicked > 0)
              /\ LET r == armed # Off \/ chanFull IN
                 nSel' = IF r THEN nSel ELSE nSel + 1
              /\ armed' = now + P /\ chanFull' = FALSE
              /\ due' = now + P /\ cancelled' = FALSE /\ owed' = OwedAfterRefresh(due, owed, now)
              /\ H([a |-> "refresh", c |-> c])
              /\ UNCHANGED <<now, created, nTicked, pc, stopAt, bad>>

Urgent == \/ (armed # Off /\ armed <= now)
          \/ (chanFull /\ nSel > 0)
          \/ nTicked > 0

Tick == /\ created /\ now < MaxNow /\ ~Urgent
        /\ now' = now + 1
        /\ bad' = IF Missed(due, StopAts, now + 1) THEN bad \cup {"missed"} ELSE bad
        /\ owed' = Off
        /\ H([a |-> "tick"])
        /\ UNCHANGED <<created, armed, chanFull, nSel, nTicked, pc, ops, due, cancelled, stopAt, tainted>>

Next == \/ Create \/ RtFire \/ TimeoutRecv \/ IntervalRecv \/ IntervalRearm \/ IntervalAtomic \/ Tick
        \/ \E c \in Callers : StopA(c) \/ StopB(c) \/ Refresh(c)

Spec == Init /\ [][Next]_vars

----------------------------------------------------------------------------
Quiet == ~Urgent /\ \A c \in Callers : pc[c] = "idle"

\* C19 clauses
C19_Runs      == ~tainted => bad = {}                       \* once, at due time, never after cancel, none missed
C19_StopPrompt == ~tainted => ~(\E c \in Callers : pc[c] = "stopB" /\ nSel = 0 /\ nTicked = 0)
C19_NoLeak    == ~tainted => (Quiet => CensusLegal(due, nSel + nTicked))
\* with the deviation, the defect must be reachable (used as a sanity check, expected to FAIL as an invariant)
Reach_Taint   == ~(tainted /\ bad # {})

\* behaviours for replay
Emit == (ops = MaxOps \/ now = MaxNow) => PrintT("BEHAVIOUR " \o ToJson(hist))
=============================================================================
