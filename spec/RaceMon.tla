------------------------------ MODULE RaceMon ------------------------------
(* Monitor for the family "race": executions under the real scheduler         *)
(* (GOMAXPROCS 8, no gates).  Each scenario contributes ONE compact result     *)
(* event; the clauses are the same properties as in EioProps/EioMon, stated    *)
(* over the whole run:                                                         *)
(*   race.send      C01: what the client received is, per sending goroutine,   *)
(*                  exactly what that goroutine sent, in its order, once, intact*)
(*   race.close     C03/C04: close causes arriving together give one close     *)
(*                  event per session, every session ends closed, table empty  *)
(*   race.registry  C04: after parallel open/close the table is empty, the     *)
(*                  count is zero, ids are unique, one close event per session *)
EXTENDS Integers, Sequences, FiniteSets, TLC, Json

CONSTANT TraceFile
Trace == ndJsonDeserialize(TraceFile)
VARIABLES l, scn, viol, done
vars == <<l, scn, viol, done>>
Init == l = 1 /\ scn = "" /\ viol = <<>> /\ done = FALSE

V(prop, clause, detail) == [scn |-> scn, line |-> l, prop |-> prop, clause |-> clause, detail |-> detail]
SeqSet(q) == {q[i] : i \in 1..Len(q)}
Sub(q, S) == SelectSeq(q, LAMBDA x : x \in S)
NoDup(q) == \A i, j \in 1..Len(q) : i # j => q[i] # q[j]

SendViols(e) ==
    LET G == 1..Len(e.sent)
        all == UNION {SeqSet(e.sent[gi]) : gi \in G}
        bad == {gi \in G : Sub(e.rcvd, SeqSet(e.sent[gi])) # e.sent[gi]}
    IN (IF \E i \in 1..Len(e.rcvd) : e.rcvd[i] < 0 THEN <<V("C01", "payload_bytes_differ", "")>> ELSE <<>>)
       \o (IF ~NoDup(e.rcvd) THEN <<V("C01", "message_received_twice", "")>> ELSE <<>>)
       \o (IF ~(SeqSet(e.rcvd) \subseteq all \cup {x \in SeqSet(e.rcvd) : x < 0}) THEN <<V("C01", "unknown_message_received", "")>> ELSE <<>>)
       \* the session stayed open and the client kept reading: everything sent has arrived, in each sender's order
       \o (IF e.rs = "open" /\ bad # {}
           THEN <<V("C01", "message_lost_or_reordered", [senders |-> bad, sent |-> Len(e.sent[CHOOSE x \in bad : TRUE]),
                                                        got |-> Len(Sub(e.rcvd, SeqSet(e.sent[CHOOSE x \in bad : TRUE])))])>> ELSE <<>>)
       \o (IF e.rs # "open" THEN <<V("C03", "session_closed_unexpectedly", e.rs)>> ELSE <<>>)

CloseViols(e) ==
    LET sids == DOMAIN e.closes IN
       (IF \E x \in sids : e.closes[x] # 1 THEN <<V("C03", "not_exactly_one_close_event", [x \in {y \in sids : e.closes[y] # 1} |-> e.closes[x]])>> ELSE <<>>)
    \o (IF \E x \in sids : e.states[x] # "closed" THEN <<V("C03", "session_not_closed", [x \in {y \in sids : e.states[y] # "closed"} |-> e.states[x]])>> ELSE <<>>)
    \o (IF e.clients # 0 \/ e.count # 0 THEN <<V("C04", "client_table_differs_from_live_sessions", [clients |-> e.clients, count |-> e.count])>> ELSE <<>>)

RegViols(e) ==
       (IF e.clients # 0 \/ e.count # 0 THEN <<V("C04", "client_table_differs_from_live_sessions", [clients |-> e.clients, count |-> e.count])>> ELSE <<>>)
    \o (IF e.dupIds # 0 THEN <<V("C04", "session_id_reused", e.dupIds)>> ELSE <<>>)
    \o (IF e.closeEvents # e.connEvents THEN <<V("C03", "not_exactly_one_close_event", [closes |-> e.closeEvents, sessions |-> e.connEvents])>> ELSE <<>>)

\* the table's container: a key stored is found by the delete that follows, with its value; stable keys stay reachable; nothing is left
MapViols(e) ==
    IF e.lostDeletes # 0 \/ e.wrongValues # 0 \/ e.stableMissDuring # 0 \/ e.stableMissingAtEnd # 0 \/ e.finalLen # 0
    THEN <<V("C20", "map_not_linearizable", [lostDeletes |-> e.lostDeletes, wrongValues |-> e.wrongValues, stableMissDuring |-> e.stableMissDuring,
                                              stableMissingAtEnd |-> e.stableMissingAtEnd, finalLen |-> e.finalLen]),
           V("C04", "session_not_reachable_under_its_id", "the client table's container loses entries under concurrent use")>>
    ELSE <<>>

Step ==
    LET e == Trace[l] IN
    /\ l <= Len(Trace) /\ l' = l + 1 /\ done' = FALSE
    /\ scn' = IF e.e = "reset" THEN e.scn ELSE scn
    /\ viol' = CASE e.e = "race.send" -> viol \o SendViols(e)
                 [] e.e = "race.close" -> viol \o CloseViols(e)
                 [] e.e = "race.registry" -> viol \o RegViols(e)
                 [] e.e = "race.map" -> viol \o MapViols(e)
                 [] e.e \in {"bubble.panic", "wedged", "process.died", "handler.panic"} ->
                      Append(viol, V("C09", e.e, IF "msg" \in DOMAIN e THEN e.msg ELSE ""))
                 [] OTHER -> viol

Finish == /\ l = Len(Trace) + 1 /\ ~done /\ done' = TRUE
          /\ PrintT("VIOLS " \o ToJson(viol))
          /\ PrintT("LINES " \o ToString(Len(Trace)))
          /\ UNCHANGED <<l, scn, viol>>
Next == Step \/ Finish
Spec == Init /\ [][Next]_vars
=============================================================================
