----------------------------- MODULE Handshake -----------------------------
(* Decision table for the handshake (C06), from the README and the protocol   *)
(* text: what an admitted handshake must produce, as a function of the server *)
(* options and of the request.  One initial state per cell.                   *)
EXTENDS Integers, Sequences, FiniteSets, TLC, Json

CONSTANTS PIs, PTs, MaxPayloads, EnabledSets, AllowUpgrades, Eio3s, Initials, Transports, Eios, B64s, Emit
VARIABLE cell

EnabledSet(en) == CASE en = "p" -> {"polling"} [] en = "pw" -> {"polling", "websocket"} [] en = "w" -> {"websocket"}
                    [] en = "pt" -> {"polling", "webtransport"} [] en = "pwt" -> {"polling", "websocket", "webtransport"}
Cells == {[pi |-> a, pt |-> b, maxPayload |-> m, enabled |-> en, allowUpgrades |-> au, eio3 |-> e3, initial |-> ini,
           transport |-> t, eio |-> e, b64 |-> b6] :
            a \in PIs, b \in PTs, m \in MaxPayloads, en \in EnabledSets, au \in AllowUpgrades, e3 \in Eio3s, ini \in Initials,
            t \in Transports, e \in Eios, b6 \in B64s}
\* a WebTransport session starts on a bidirectional stream of an HTTP/3 session the application's own server has accepted and
\* handed over (OnWebTransportSession); its handshake is the packet "0"; it is always of revision 4
Valid(c) == c.transport = "webtransport" => ("webtransport" \in EnabledSet(c.enabled) /\ c.eio = "4" /\ ~c.b64)
Init == cell \in {c \in Cells : Valid(c)}
Next == UNCHANGED cell
Spec == Init /\ [][Next]_cell

\* revision: 4 when the EIO parameter is 4, otherwise 3 (admitted only when revision 3 is allowed); "otherwise" is every other
\* value - absent, "3", and also "5", "04", "40", "+4", "4.0", a word
Rev(c) == IF c.eio = "4" \/ c.transport = "webtransport" THEN 4 ELSE 3
Admitted(c) == c.transport \in EnabledSet(c.enabled) /\ (Rev(c) = 4 \/ c.eio3)
\* upgrade targets of the chosen transport that are enabled; none when upgrades are off or the session starts on a socket transport
Upgrades(c) == IF c.allowUpgrades /\ c.transport = "polling" THEN {"websocket", "webtransport"} \cap EnabledSet(c.enabled) ELSE {}
\* heartbeat mode: revision 4 = the server pings; revision 3 = the client pings and the server answers with a pong
ServerPings(c) == Rev(c) = 4

\* a repeated EIO parameter ("3then4" = EIO=3&EIO=4, "4then3"): which value counts is not documented, but the session is of ONE
\* revision r: the socket's protocol, the payload format of its responses and its heartbeat mode agree, r = 3 needs revision 3
\* to be allowed, and a handshake may only be refused for the revision when revision 3 is not allowed
Repeated(c) == c.eio \in {"3then4", "4then3"} /\ c.transport # "webtransport"
RepObsOK(c, o) ==
    IF c.transport \notin EnabledSet(c.enabled) THEN ~o.created /\ o.nconn = 0
    ELSE IF ~o.created THEN o.nconn = 0 /\ ~c.eio3
    ELSE /\ o.nconn = 1 /\ o.firstIsOpen /\ o.sidMatch
         /\ o.pi = c.pi /\ o.pt = c.pt /\ o.maxPayload = c.maxPayload
         /\ {o.upgrades[i] : i \in 1..Len(o.upgrades)} = Upgrades(c) /\ Len(o.upgrades) = Cardinality(Upgrades(c))
         /\ o.initial = c.initial /\ o.initialIntact
         /\ o.proto \in {3, 4} /\ (o.proto = 3 => c.eio3)
         /\ (o.fmtRev # 0 => o.fmtRev = o.proto) /\ o.payloadFormatOk
         /\ o.serverPinged = (o.proto = 4)
         /\ (o.proto = 3 => o.pongForPing)

\* o = observation of the n-th handshake of one server with this configuration (n = 1..3)
ObsOK(c, o) ==
    IF Repeated(c) THEN RepObsOK(c, o)
    ELSE IF ~Admitted(c) THEN ~o.created /\ o.nconn = 0
    ELSE /\ o.created /\ o.nconn = 1                       \* exactly one session, one connection event
         /\ o.firstIsOpen /\ o.sidMatch                      \* first packet = open packet carrying that session's id
         /\ o.pi = c.pi /\ o.pt = c.pt /\ o.maxPayload = c.maxPayload
         /\ {o.upgrades[i] : i \in 1..Len(o.upgrades)} = Upgrades(c) /\ Len(o.upgrades) = Cardinality(Upgrades(c))
         /\ o.initial = c.initial /\ o.initialIntact         \* the configured initial packet is the first message, for EVERY session
         /\ o.proto = Rev(c) /\ o.payloadFormatOk
         /\ o.serverPinged = ServerPings(c)
         /\ (Rev(c) = 3 => o.pongForPing)

TableOK == (Admitted(cell) => Upgrades(cell) \subseteq EnabledSet(cell.enabled)) /\ (cell.transport = "websocket" => Upgrades(cell) = {})
EmitCell == Emit => PrintT("CELL " \o ToJson(cell))
=============================================================================
