------------------------------ MODULE Upgrade ------------------------------
(* SEVERAL upgrade candidates of ONE polling session of zishang520/engine.io  *)
(* (EioSession.tla has one candidate in depth; this module is the breadth:    *)
(* who is entertained, who is turned away, how often the session switches).   *)
(* Every candidate is a goroutine of its own: the handler of its WebSocket /  *)
(* WebTransport request (engine/server.go onWebSocket, OnWebTransportSession) *)
(* and then its reader goroutine, which runs the packet listener that         *)
(* socket.MaybeUpgrade attached. Steps and the harness's hold points:         *)
(*                                                                            *)
(*   Dial      the admission tests of the request: session known, not         *)
(*             upgrading, not upgraded - two loads         | upgrade.gated    *)
(*   Enter     MaybeUpgrade: upgraded? / upgrading.CompareAndSwap(false,true),*)
(*             listeners attached, upgrade timeout armed                      *)
(*   SendProbe the client sends its probe ping - as soon as its connection is *)
(*             open, i.e. possibly before MaybeUpgrade has attached the       *)
(*             listener that answers it                                       *)
(*   Probe     the transport's reader goroutine reads the probe and the       *)
(*             listener answers it (nothing can hold it: it runs as soon as   *)
(*             there is a frame to read and somebody to listen)               *)
(*   Accept    its upgrade packet: upgraded := true; cleanup() (upgrading :=  *)
(*             false, listeners off, timers off)           | upgrade.switching*)
(*   Switch    discard and close the old transport, attach the new one,       *)
(*             emit "upgrade", flush                                          *)
(*   Fail      the candidate's connection closes or fails, or the upgrade     *)
(*             timeout elapses: cleanup(), only the candidate is closed       *)
(*   Unexpected  an upgrade packet from a candidate that was never probed     *)
(*             (or any other packet): cleanup(), the candidate is closed      *)
(*                                                                            *)
(* Deviations (constant): the code as it was before two fix: commits          *)
(*   "NoCAS"         MaybeUpgrade entertains whoever passed the admission     *)
(*                   tests (two candidates arriving together both did)        *)
(*   "SwitchWindow"  Accept releases the upgrading flag BEFORE the session is *)
(*                   marked upgraded: a candidate arriving in between finds   *)
(*                   both flags down                                          *)
(*   "EagerReader"   the transport reads from its connection from its         *)
(*                   construction on: a probe that arrives before MaybeUpgrade*)
(*                   has attached its listener is emitted to nobody           *)
EXTENDS Integers, Sequences, FiniteSets, TLC, Json

CONSTANTS Cands, Deviations
VARIABLES upgrading, upgraded,   \* the session's flags
          cur,                   \* the session's transport: "p" or a candidate
          pc,                    \* candidate -> none | gated | refused | attached | probed | switching | switched | closed | failed
          nswitch,               \* how often the session's transport has been switched
          lost,                  \* a transport the session had been switched to was closed by a later switch
          sent,                  \* candidate -> none | probe (in its connection, unread) | read (answered) | dropped (emitted to nobody)
          hist
vars == <<upgrading, upgraded, cur, pc, nswitch, lost, sent, hist>>
view == <<upgrading, upgraded, cur, pc, nswitch, lost, sent>>
Dev(d) == d \in Deviations
\* the last action only (every state of the dumped graph carries the action that produced it); the whole history when asked for
\* ("fullhist": the counterexamples of the deviations, which are replayed into the real code)
H(a) == hist' = IF "fullhist" \in Deviations THEN Append(hist, a) ELSE <<a>>

Init == /\ upgrading = FALSE /\ upgraded = FALSE /\ cur = "p" /\ pc = [c \in Cands |-> "none"] /\ nswitch = 0 /\ lost = FALSE
        /\ sent = [c \in Cands |-> "none"] /\ hist = <<>>

Dial(c) == /\ pc[c] = "none"
           /\ pc' = [pc EXCEPT ![c] = IF upgrading \/ upgraded THEN "refused" ELSE "gated"]
           /\ UNCHANGED <<upgrading, upgraded, cur, nswitch, lost, sent>> /\ H([a |-> "dial", c |-> c])
Enter(c) == /\ pc[c] = "gated"
            /\ IF Dev("NoCAS") \/ (~upgraded /\ ~upgrading)
               THEN pc' = [pc EXCEPT ![c] = "attached"] /\ upgrading' = TRUE
               ELSE pc' = [pc EXCEPT ![c] = "closed"] /\ UNCHANGED upgrading
            /\ UNCHANGED <<upgraded, cur, nswitch, lost, sent>> /\ H([a |-> "enter", c |-> c])
SendProbe(c) == /\ pc[c] \in {"gated", "attached"} /\ sent[c] = "none"
                /\ sent' = [sent EXCEPT ![c] = IF pc[c] = "gated" /\ Dev("EagerReader") THEN "dropped" ELSE "probe"]
                /\ UNCHANGED <<upgrading, upgraded, cur, pc, nswitch, lost>> /\ H([a |-> "sendprobe", c |-> c])
Probe(c) == /\ pc[c] = "attached" /\ sent[c] = "probe" /\ pc' = [pc EXCEPT ![c] = "probed"] /\ sent' = [sent EXCEPT ![c] = "read"]
            /\ UNCHANGED <<upgrading, upgraded, cur, nswitch, lost>> /\ H([a |-> "probe", c |-> c])
Accept(c) == /\ pc[c] = "probed" /\ pc' = [pc EXCEPT ![c] = "switching"]
             /\ upgrading' = FALSE
             /\ upgraded' = (IF Dev("SwitchWindow") THEN upgraded ELSE TRUE)
             /\ UNCHANGED <<cur, nswitch, lost, sent>> /\ H([a |-> "accept", c |-> c])
Switch(c) == /\ pc[c] = "switching"
             /\ upgraded' = TRUE /\ cur' = c /\ nswitch' = nswitch + 1
             /\ lost' = (lost \/ cur # "p")
             /\ pc' = [d \in Cands |-> IF d = c THEN "switched" ELSE IF d = cur THEN "closed" ELSE pc[d]]
             /\ UNCHANGED <<upgrading, sent>> /\ H([a |-> "switch", c |-> c])
Fail(c) == /\ pc[c] \in {"attached", "probed"} /\ pc' = [pc EXCEPT ![c] = "failed"] /\ upgrading' = FALSE
           /\ UNCHANGED <<upgraded, cur, nswitch, lost, sent>> /\ H([a |-> "fail", c |-> c])
\* (an upgrade packet from a candidate that has not even sent its probe)
Unexpected(c) == /\ pc[c] = "attached" /\ sent[c] = "none" /\ pc' = [pc EXCEPT ![c] = "closed"] /\ upgrading' = FALSE
                 /\ UNCHANGED <<upgraded, cur, nswitch, lost, sent>> /\ H([a |-> "unexpected", c |-> c])

Next == \E c \in Cands : Dial(c) \/ Enter(c) \/ SendProbe(c) \/ Probe(c) \/ Accept(c) \/ Switch(c) \/ Fail(c) \/ Unexpected(c)
Spec == Init /\ [][Next]_vars

TypeOK == /\ upgrading \in BOOLEAN /\ upgraded \in BOOLEAN /\ cur \in Cands \cup {"p"}
          /\ \A c \in Cands : pc[c] \in {"none", "gated", "refused", "attached", "probed", "switching", "switched", "closed", "failed"}
Entertained == {c \in Cands : pc[c] \in {"attached", "probed"}}
\* C08: at most one candidate is entertained at a time, none once the session has switched (or is switching)
C08_OneAtATime == Cardinality(Entertained) <= 1
C08_NoneAfterSwitch == (upgraded \/ \E c \in Cands : pc[c] = "switching") => Entertained = {}
\* C08: the switch happens at most once; the transport the session was switched to is not taken away by a later candidate
C08_AtMostOnce == nswitch <= 1
C08_SwitchKept == ~lost
\* C08: the upgrading flag is up exactly while a candidate is entertained (a failed attempt leaves the session usable)
C08_FlagMeansCandidate == upgrading <=> Entertained # {}
\* C08: a candidate that follows the protocol completes the switch: the probe it sent is not emitted to nobody
C08_ProbeNotLost == \A c \in Cands : sent[c] # "dropped"
\* the reader has nothing to do (the replay compares in such states only)
Settled == \A c \in Cands : ~(pc[c] = "attached" /\ sent[c] = "probe")
\* liveness (fairness of the reader): an entertained candidate whose probe is in its connection is answered
FairSpec == Spec /\ \A c \in Cands : WF_vars(Probe(c))
L_C08_ProbeAnswered == \A c \in Cands : (pc[c] = "attached" /\ sent[c] = "probe") ~> (pc[c] # "attached")
=============================================================================
