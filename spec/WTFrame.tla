------------------------------ MODULE WTFrame ------------------------------
(* Engine.IO WebTransport framing (properties C13, C14, C15).                 *)
(*                                                                            *)
(* Part 1  reference codec, written from the protocol text:                   *)
(*         one frame per message; header byte = 0x80 iff binary, low 7 bits   *)
(*         = length if < 126, 126 + u16 if < 65536, 127 + u64 otherwise.      *)
(* Part 2  the writer of webtransport/conn.go + prepared.go as a function     *)
(*         from a write script to the frames it puts on the wire, at the      *)
(*         grain of the code's flushFrame calls, with the code's deviations   *)
(*         switched by the constant Deviations:                               *)
(*           "SplitOnFullBuffer"  a full buffer is flushed as a non-final     *)
(*                                frame (and the rest goes out as type-0      *)
(*                                frames, whose header bit reads as binary)   *)
(*           "BigWriteShortcut"   server Write of > 2*len(writeBuf) emits     *)
(*                                buffer+argument as a non-final frame        *)
(*         With Deviations = {} this is the design: one frame per message.    *)
(* Part 3  the reader contract (what any byte stream must produce).           *)
EXTENDS Integers, Sequences, FiniteSets, TLC, Json

----------------------------------------------------------------------------
(* Part 1: reference codec *)

Byte(n, k) == (n \div (256 ^ k)) % 256          \* k-th byte of n, little-endian index

\* header bytes for a message of the given kind and length (length < 2^31 here)
Header(bin, len) ==
    LET hi == IF bin THEN 128 ELSE 0 IN
    IF len < 126 THEN <<hi + len>>
    ELSE IF len < 65536 THEN <<hi + 126, Byte(len, 1), Byte(len, 0)>>
    ELSE <<hi + 127, 0, 0, 0, 0, Byte(len, 3), Byte(len, 2), Byte(len, 1), Byte(len, 0)>>

\* how many header bytes a frame starting with byte b0 has
HdrLen(b0) == LET l7 == b0 % 128 IN IF l7 = 126 THEN 3 ELSE IF l7 = 127 THEN 9 ELSE 1
HdrBin(b0) == b0 >= 128

\* declared length of a complete header h: a record [huge, neg, len]
\*   neg  <=> 64-bit length with the top bit set
\*   huge <=> does not fit TLC's 31-bit integers (then len is meaningless)
Declared(h) ==
    LET l7 == h[1] % 128 IN
    IF l7 < 126 THEN [huge |-> FALSE, neg |-> FALSE, len |-> l7]
    ELSE IF l7 = 126 THEN [huge |-> FALSE, neg |-> FALSE, len |-> h[2] * 256 + h[3]]
    ELSE [neg  |-> h[2] >= 128,
          huge |-> h[2] # 0 \/ h[3] # 0 \/ h[4] # 0 \/ h[5] # 0 \/ h[6] >= 128,
          len  |-> ((h[6] % 128) * 16777216) + h[7] * 65536 + h[8] * 256 + h[9]]

\* split a raw byte sequence into frames: [hdr, complete (header complete), supplied (payload bytes present)]
Min2(a, b) == IF a < b THEN a ELSE b
\* the same for a stream of which only a head s is at hand (total = its real length): payload bytes need not be seen
RECURSIVE ParseRawT(_, _, _)
ParseRawT(s, i, total) ==
    IF i > Len(s) \/ i > total THEN <<>>
    ELSE LET hl == HdrLen(s[i]) IN
         IF i + hl - 1 > total
         THEN <<[hdr |-> SubSeq(s, i, Min2(Len(s), total)), complete |-> FALSE, supplied |-> 0]>>
         ELSE IF i + hl - 1 > Len(s) THEN <<>>          \* the head ends inside this header: nothing more can be said
         ELSE LET h == SubSeq(s, i, i + hl - 1)
                  d == Declared(h)
                  avail == total - (i + hl - 1)
              IN IF d.huge \/ d.neg \/ d.len >= avail
                 THEN <<[hdr |-> h, complete |-> TRUE, supplied |-> avail]>>
                 ELSE <<[hdr |-> h, complete |-> TRUE, supplied |-> d.len]>> \o ParseRawT(s, i + hl + d.len, total)
RECURSIVE ParseRaw(_, _)
ParseRaw(s, i) ==
    IF i > Len(s) THEN <<>>
    ELSE LET hl == HdrLen(s[i]) IN
         IF i + hl - 1 > Len(s)
         THEN <<[hdr |-> SubSeq(s, i, Len(s)), complete |-> FALSE, supplied |-> 0]>>
         ELSE LET h == SubSeq(s, i, i + hl - 1)
                  d == Declared(h)
                  avail == Len(s) - (i + hl - 1)
              IN IF d.huge \/ d.neg \/ d.len >= avail
                 THEN <<[hdr |-> h, complete |-> TRUE, supplied |-> avail]>>
                 ELSE <<[hdr |-> h, complete |-> TRUE, supplied |-> d.len]>> \o ParseRaw(s, i + hl + d.len)

----------------------------------------------------------------------------
(* Part 2: the writer *)
CONSTANT Deviations

Min(a, b) == IF a < b THEN a ELSE b
RECURSIVE Sum(_)
Sum(s) == IF s = <<>> THEN 0 ELSE Head(s) + Sum(Tail(s))
Split == "SplitOnFullBuffer" \in Deviations
BigCut == "BigWriteShortcut" \in Deviations

\* writer state while a message is open: pos (payload bytes buffered), ft (type of the
\* next frame: "text" | "binary" | "cont"), out (frames flushed so far: [ft, len])
St(pos, ft, out) == [pos |-> pos, ft |-> ft, out |-> out]
FlushNonFinal(st) == St(0, "cont", Append(st.out, [ft |-> st.ft, len |-> st.pos]))
FlushFinal(st)    == Append(st.out, [ft |-> st.ft, len |-> st.pos])

\* messageWriter.Write / WriteString copy loop (ncopy); B = payload capacity of writeBuf.
\* The Go loop copies min(space, rest) bytes and, when the buffer is full and bytes remain,
\* flushes a non-final frame.  In closed form: with T = pos + n bytes in total the loop flushes
\* F = (T-1) div B times when T > B (first frame of type ft, the others "cont", B bytes each)
\* and leaves T - F*B bytes buffered.  Without the deviation nothing is flushed before Close.
CopyLoop(st, n, B) ==
    LET T == st.pos + n
        F == IF Split /\ n > 0 /\ T > B THEN (T - 1) \div B ELSE 0
    IN IF F = 0 THEN St(T, st.ft, st.out)
       ELSE St(T - F * B, "cont",
               st.out \o [i \in 1..F |-> [ft |-> IF i = 1 THEN st.ft ELSE "cont", len |-> B]])

\* messageWriter.Write(p): big-write shortcut on server connections
WriteOne(st, n, B, Big, server, isString) ==
    IF server /\ ~isString /\ n > Big /\ BigCut
    THEN St(0, "cont", Append(st.out, [ft |-> st.ft, len |-> st.pos + n]))
    ELSE CopyLoop(st, n, B)

\* messageWriter.ReadFrom(r): r delivers its data in reads of the given sizes and reports EOF
\* on a separate call.  The Go loop flushes a non-final frame at the top of every iteration in
\* which the buffer is full - also on the last one, where the next Read only returns EOF.
\* Closed form: T = pos + total; F = T div B flushes when T >= B; T - F*B bytes stay buffered.
ReadFromLoop(st, reads, B) ==
    LET T == st.pos + Sum(reads)
        F == IF Split /\ T >= B /\ B > 0 THEN T \div B ELSE 0
    IN IF F = 0 THEN St(T, st.ft, st.out)
       ELSE St(T - F * B, "cont",
               st.out \o [i \in 1..F |-> [ft |-> IF i = 1 THEN st.ft ELSE "cont", len |-> B]])

RECURSIVE WriteAll(_, _, _, _, _, _)
WriteAll(st, chunks, B, Big, server, isString) ==
    IF chunks = <<>> THEN st
    ELSE WriteAll(WriteOne(st, Head(chunks), B, Big, server, isString), Tail(chunks), B, Big, server, isString)

\* the frames one message puts on the wire.  m = [bin, api, chunks, server], B/Big = buffer geometry
\*   api: "message"  Conn.WriteMessage(data)                       (chunks = <<n>>)
\*        "writer"   NextWriter; Write(chunk)*; Close
\*        "string"   NextWriter; WriteString(chunk)*; Close
\*        "readfrom" NextWriter; ReadFrom(reader yielding chunks); Close
\*        "prepared" NewPreparedMessage(data); WritePreparedMessage  (chunks = <<n>>; always built with a 4096 buffer)
FramesOf(m, B, Big) ==
    LET ft0 == IF m.bin THEN "binary" ELSE "text"
        n == Sum(m.chunks)
        st0 == St(0, ft0, <<>>)
    IN CASE m.api = "message" ->
              IF m.server THEN <<[ft |-> ft0, len |-> n]>>
              ELSE FlushFinal(WriteOne(st0, n, B, Big, FALSE, FALSE))
         [] m.api = "prepared" ->
              IF m.server THEN <<[ft |-> ft0, len |-> n]>>
              ELSE FlushFinal(WriteOne(st0, n, 4096, 8210, FALSE, FALSE))
         [] m.api = "writer"   -> FlushFinal(WriteAll(st0, m.chunks, B, Big, m.server, FALSE))
         [] m.api = "string"   -> FlushFinal(WriteAll(st0, m.chunks, B, Big, m.server, TRUE))
         \* ("readfromeof": the reader returns its last data together with io.EOF, as the io.Reader contract allows)
         [] m.api \in {"readfrom", "readfromeof"} -> FlushFinal(ReadFromLoop(st0, m.chunks, B))

\* what the peer's reader makes of frames: every frame is a message; type-0 frames carry bit 7 = 1
ReadBack(frames) == [i \in 1..Len(frames) |-> [bin |-> frames[i].ft # "text", len |-> frames[i].len]]
\* header byte sequence the code emits for a frame
WireHeader(f) == Header(f.ft # "text", f.len)

\* C13 / C14 for one message
Want(m) == <<[bin |-> m.bin, len |-> Sum(m.chunks)]>>
C13_RoundTrip(m, B, Big) == ReadBack(FramesOf(m, B, Big)) = Want(m)
SplitHappened(m, B, Big) == Len(FramesOf(m, B, Big)) > 1

----------------------------------------------------------------------------
(* cell enumeration for TLC: every initial state is one write script *)
CONSTANTS Lens, Geoms, MaxChunks, Emit
VARIABLE cell
Apis == {"message", "writer", "string", "readfrom", "readfromeof", "prepared"}
ChunkLists == {<<a>> : a \in Lens} \cup (IF MaxChunks >= 2 THEN {<<a, b>> : a \in Lens, b \in Lens} ELSE {})
             \cup (IF MaxChunks >= 3 THEN {<<a, b, c>> : a \in Lens, b \in Lens, c \in Lens} ELSE {})
Cells == {[bin |-> b, api |-> a, chunks |-> c, server |-> s, geom |-> g] :
            b \in BOOLEAN, a \in Apis, c \in ChunkLists, s \in BOOLEAN, g \in Geoms}
Valid(c) == (c.api \in {"message", "prepared"} => Len(c.chunks) = 1)
BOf(c) == c.geom
BigOf(c) == 2 * (c.geom + 9)

Init == cell \in {c \in Cells : Valid(c)}
Next == UNCHANGED cell
Spec == Init /\ [][Next]_cell

\* the design (Deviations = {}) round-trips every script; the code as it stands does
\* whenever it did not split (model-level statement of the two listed deviations)
Design_RoundTrip == C13_RoundTrip(cell, BOf(cell), BigOf(cell))
AsIs_RoundTrip == ~SplitHappened(cell, BOf(cell), BigOf(cell)) => C13_RoundTrip(cell, BOf(cell), BigOf(cell))
AsIs_HeaderExact == LET fs == FramesOf(cell, BOf(cell), BigOf(cell)) IN
                    \A i \in 1..Len(fs) :
                        LET h == WireHeader(fs[i]) IN Len(h) = HdrLen(h[1]) /\ Declared(h).len = fs[i].len
\* cells (with the frames the as-is model predicts) printed for the replay harness
EmitCell == Emit => PrintT("CELL " \o ToJson([cell |-> cell, frames |-> FramesOf(cell, BOf(cell), BigOf(cell))]))
=============================================================================
