------------------------------- MODULE EioMon -------------------------------
(* Trace monitor for the session-level properties of engine.io                *)
(* (C01 C02 C03 C04 C07 C08 C09 C10 C11 C12 C18).                             *)
(*                                                                            *)
(* A deterministic fold over the events recorded from the real server and     *)
(* from the protocol-conformant client actor.  It keeps ONLY observable       *)
(* state (what the application was handed, what the client received, event    *)
(* order, HTTP statuses, virtual time) and evaluates the property clauses of  *)
(* EioProps.tla on it.  Every breach is appended to viol with the property it *)
(* belongs to; nothing here depends on the implementation-shaped model.       *)
EXTENDS Integers, Sequences, FiniteSets, TLC, Json, EioProps

CONSTANT TraceFile
Trace == ndJsonDeserialize(TraceFile)

VARIABLES l, scn, cfg, S, Rq, Cn, Pre, grid, lastH, viol, done
vars == <<l, scn, cfg, S, Rq, Cn, Pre, grid, lastH, viol, done>>

NoCfg == [pi |-> 25000000, pt |-> 20000000, ut |-> 10000000, maxbuf |-> 1000000]
Init == /\ l = 1 /\ scn = "" /\ cfg = NoCfg /\ S = <<>> /\ Rq = <<>> /\ Cn = <<>> /\ Pre = <<>> /\ grid = FALSE /\ lastH = "" /\ viol = <<>> /\ done = FALSE

V(prop, clause, sid, detail) == [scn |-> scn, line |-> l, prop |-> prop, clause |-> clause, sid |-> sid, detail |-> detail]
Put(f, k, v) == [x \in DOMAIN f \cup {k} |-> IF x = k THEN v ELSE f[x]]
Has(f, k) == k \in DOMAIN f
SeqSet(s) == {s[i] : i \in 1..Len(s)}
MsgIds(pk) == LET m == SelectSeq(pk, LAMBDA p : p.ty = "message") IN [i \in 1..Len(m) |-> m[i].id]
\* message ids of a client payload that come before the first close packet
RECURSIVE BeforeClose(_)
BeforeClose(pk) == IF pk = <<>> \/ Head(pk).ty = "close" THEN <<>> ELSE <<Head(pk)>> \o BeforeClose(Tail(pk))
HasTy(pk, ty) == \E i \in 1..Len(pk) : pk[i].ty = ty

NewSess(e) == [proto |-> e.proto, tOpen |-> e.t, closed |-> FALSE, closeT |-> Off, nclose |-> 0, rank |-> Rank(e.rs),
               tr |-> e.tr, nupg |-> 0, upgrading |-> FALSE,
               pingDue |-> IF e.proto = 4 THEN e.t + cfg.pi ELSE Off,
               deadline |-> IF e.proto = 4 THEN Off ELSE e.t + cfg.pi + cfg.pt,
               sent |-> <<>>, nrcv |-> 0, sub |-> <<>>, del |-> <<>>,
               created |-> <<>>, flushed |-> {}, cbReg |-> <<>>, cbRun |-> <<>>, lastFlush |-> <<>>, phase |-> "idle",
               causes |-> {}, pollOut |-> 0, dataOut |-> 0, closeAsked |-> Off, buffered |-> <<>>, closeSeen |-> FALSE, lastPost |-> <<>>, cset |-> {}, grace |-> Off, closeCalled |-> FALSE, parked |-> 0, may |-> {}, v3lossy |-> FALSE, sloppy |-> FALSE, nested |-> FALSE, inDispatch |-> FALSE, probeT |-> Off, coincide |-> FALSE,
               accAtClose |-> {}, retd |-> {}, noopDue |-> Off, phaseUnk |-> FALSE, parkedRW |-> 0, hard |-> FALSE, closeReason |-> "", gracefulAsked |-> FALSE,
               closeRet |-> FALSE, idleDrain |-> Off, pollAfterIdle |-> FALSE, parkT |-> Off, idleVoid |-> FALSE]

\* ---------------------------------------------------------------- common per-event checks for sock.* events
\* lifecycle clauses that apply to every event sampled from a socket
SockCommon(e, s) ==
    LET r == Rank(e.rs) IN
       (IF r < s.rank THEN <<V("C03", "state_went_backwards", e.sid, [from |-> s.rank, to |-> e.rs, ev |-> e.e])>> ELSE <<>>)
    \* (a drain that completes the flush during which a listener closed the session still belongs to that flush)
    \* (and the message event of a packet whose own packet-listener closed the session still belongs to that dispatch)
    \* (the property lists message, packet, heartbeat, upgrade, flush and drain events: "upgrading" - a probe answered while the
    \*  close listeners are still running - is not among them)
    \o (IF s.closed /\ e.e \notin {"sock.close", "sock.upgrading"} /\ ~(e.e = "sock.drain" /\ s.phase = "srvflushed") /\ ~(e.e = "sock.message" /\ s.inDispatch)
        THEN <<V("C03", "event_after_close", e.sid, e.e)>> ELSE <<>>)
    \o (IF e.tr # s.tr /\ e.e # "sock.upgrade" /\ ~s.closed THEN <<V("C08", "transport_changed_without_upgrade_event", e.sid, [from |-> s.tr, to |-> e.tr, ev |-> e.e])>> ELSE <<>>)

\* time-driven obligations of a live session, evaluated whenever an event of ANY kind carries time t
TimeViols(sid, s, t) ==
    IF s.closed \/ s.parked > 0 THEN <<>> ELSE
       (IF PingMissed(s.pingDue, t) /\ ~s.closeCalled THEN <<V("C07", "ping_not_sent_when_due", sid, [due |-> s.pingDue, now |-> t])>> ELSE <<>>)
    \o (IF TimeoutMissed(s.deadline, t) THEN <<V("C07", "session_open_past_ping_deadline", sid, [deadline |-> s.deadline, now |-> t])>> ELSE <<>>)
    \o (IF CloseOverdue(s.closeAsked, s.deadline, cfg, t) THEN <<V("C12", "graceful_close_not_bounded", sid, [asked |-> s.closeAsked, now |-> t])>> ELSE <<>>)
    \* C08: while a probed candidate is alive, a pending poll is released (noop) by the next tick of the 100 ms check
    \o (IF s.noopDue # Off /\ t > s.noopDue THEN <<V("C08", "pending_poll_not_released_for_upgrade", sid, [due |-> s.noopDue, now |-> t])>> ELSE <<>>)
\* after reporting, push the obligations forward so that one breach is reported once
TimeAdvance(s, t) ==
    IF s.closed THEN s
    \* (while a goroutine of the session is held at a gate no obligation is evaluated, but the deadline the ping timer of a
    \*  closing session arms when it fires is knowledge, not an obligation: a replayed behaviour may hold a writer across it)
    ELSE IF s.parked > 0
    THEN IF PingMissed(s.pingDue, t) /\ s.closeCalled /\ s.deadline = Off /\ s.pingDue + cfg.pt >= t
         THEN [s EXCEPT !.deadline = s.pingDue + cfg.pt, !.pingDue = Off] ELSE s
    ELSE
    \* a session that is closing cannot be sent a ping, but the ping timer still arms the timeout: that deadline
    \* is the "next heartbeat deadline" which bounds a graceful close with data still buffered (C12)
    [s EXCEPT !.pingDue = IF PingMissed(s.pingDue, t) THEN Off ELSE s.pingDue,
              !.deadline = IF TimeoutMissed(s.deadline, t) THEN Off
                           ELSE IF PingMissed(s.pingDue, t) /\ s.closeCalled /\ s.deadline = Off /\ s.pingDue + cfg.pt >= t THEN s.pingDue + cfg.pt
                           ELSE s.deadline,
              !.closeAsked = IF CloseOverdue(s.closeAsked, s.deadline, cfg, t) THEN Off ELSE s.closeAsked,
              !.noopDue = IF s.noopDue # Off /\ t > s.noopDue THEN Off ELSE s.noopDue]
RECURSIVE AllTimeViols(_, _)
AllTimeViols(sids, t) == IF sids = {} THEN <<>> ELSE LET x == CHOOSE y \in sids : TRUE IN TimeViols(x, S[x], t) \o AllTimeViols(sids \ {x}, t)
S1(t) == [x \in DOMAIN S |-> TimeAdvance(S[x], t)]

\* ---------------------------------------------------------------- client receipt of packets of session sid (poll response or socket frame)
RECURSIVE Receive(_, _, _, _)
Receive(s, sid, pk, acc) ==
    IF pk = <<>> THEN [s |-> s, v |-> acc]
    ELSE LET p == Head(pk) IN
         IF p.ty # "message"
         THEN Receive(IF p.ty = "close" THEN [s EXCEPT !.closeSeen = TRUE] ELSE s, sid, Tail(pk), acc)
         ELSE LET n == s.nrcv + 1
                  ok == n <= Len(s.sent) /\ s.sent[n].id = p.id
                  v == (IF ~ok /\ ~s.sloppy THEN <<V("C01", IF p.id \in {s.sent[i].id : i \in 1..Min2(s.nrcv, Len(s.sent))} THEN "message_received_twice"
                                             ELSE IF \E i \in 1..Len(s.sent) : s.sent[i].id = p.id THEN "message_lost_or_reordered"
                                             ELSE "unknown_message_received", sid, [got |-> p.id, expectedIndex |-> n])>> ELSE <<>>)
                    \o (IF ~p.intact THEN <<V("C01", "payload_bytes_differ", sid, p.id)>> ELSE <<>>)
                    \o (IF ok /\ s.sent[n].bin # p.bin THEN <<V("C01", "kind_changed", sid, p.id)>> ELSE <<>>)
                    \* (a client that switched with a poll still outstanding is handed the discarded transport's close packet on it)
                    \o (IF s.closeSeen /\ ~s.sloppy THEN <<V("C12", "data_after_close_packet", sid, p.id)>> ELSE <<>>)
                  \* resynchronise after a loss so that it is reported once
                  idx == IF ok THEN n ELSE IF \E i \in 1..Len(s.sent) : s.sent[i].id = p.id
                                           THEN CHOOSE i \in 1..Len(s.sent) : s.sent[i].id = p.id ELSE s.nrcv
              IN Receive([s EXCEPT !.nrcv = Max2(idx, s.nrcv)], sid, Tail(pk), acc \o v)

\* ---------------------------------------------------------------- the fold
ProbedCand(sid) == \E c \in DOMAIN Cn : Cn[c].sid = sid /\ Cn[c].role = "cand" /\ Cn[c].ponged /\ ~Cn[c].closed
ConnRole(cid) == IF Has(Cn, cid) THEN Cn[cid].role ELSE "none"

Step ==
  LET e == Trace[l]
      t == e.t
      tv == IF e.e \in {"reset", "bubble.panic", "wedged", "process.died"} THEN <<>> ELSE AllTimeViols(DOMAIN S, t)
      SS == IF e.e \in {"reset", "bubble.panic", "wedged", "process.died"} THEN S ELSE S1(t)
      known == e.e \notin {"reset", "cfg"} /\ "sid" \in DOMAIN e /\ Has(SS, e.sid)
      s0k == IF known THEN SS[e.sid] ELSE NewSess([proto |-> 4, t |-> 0, rs |-> "open", tr |-> ""])
      \* the upgrade attempt may be ending at an instant that lies on the 100 ms grid of its check interval: only then can the
      \* interval's tick window (known finding KF-C19-tickwindow) be hit by the cleanup
      onGrid == known /\ s0k.probeT # Off /\ t > s0k.probeT /\ (t - s0k.probeT) % 100000 = 0
      s == IF onGrid THEN [s0k EXCEPT !.coincide = TRUE] ELSE s0k
      Upd(ns) == Put(SS, e.sid, ns)
  IN
  /\ l <= Len(Trace) /\ l' = l + 1 /\ done' = FALSE
  /\ scn' = IF e.e = "reset" THEN e.scn ELSE scn
  /\ grid' = IF e.e = "reset" THEN FALSE ELSE grid \/ onGrid
  /\ lastH' = IF e.e = "reset" THEN "" ELSE IF e.e = "hostile" THEN e.class ELSE lastH
  /\ Pre' = IF e.e = "reset" THEN <<>>
            ELSE IF e.e = "gate.park" /\ e.point = "handshake.constructed" THEN Put(Pre, e.id, t) ELSE Pre
  /\ CASE e.e = "reset" ->
            /\ S' = <<>> /\ Rq' = <<>> /\ Cn' = <<>> /\ cfg' = NoCfg /\ viol' = viol
       [] e.e = "cfg" ->
            /\ cfg' = [pi |-> e.pi, pt |-> e.pt, ut |-> e.ut, maxbuf |-> e.maxbuf] /\ UNCHANGED <<S, Rq, Cn, viol>>

       \* ------------------------------------------------------------ server side
       [] e.e = "srv.connection" ->
            \* a session opens when it is constructed; with the handshake gate parked that is earlier than the connection event
            \* (if a heartbeat instant already passed unobserved in between, the heartbeat phase is unknown until the next heartbeat event)
            /\ S' = Put(SS, e.sid, LET n == NewSess(IF Has(Pre, e.sid) THEN [e EXCEPT !.t = Pre[e.sid]] ELSE e) IN
                                   IF Has(Pre, e.sid) /\ Pre[e.sid] + cfg.pi <= t THEN [n EXCEPT !.pingDue = Off, !.deadline = Off, !.phaseUnk = TRUE] ELSE n)
            /\ viol' = viol \o tv
                 \o (IF e.rs # "open" THEN <<V("C03", "handed_over_not_open", e.sid, e.rs)>> ELSE <<>>)
                 \o (IF Has(SS, e.sid) THEN <<V("C04", "session_id_reused", e.sid, "")>> ELSE <<>>)
                 \o (IF ~e.idok THEN <<V("C04", "session_id_not_url_safe", e.sid, "")>> ELSE <<>>)
            /\ UNCHANGED <<cfg, Rq, Cn>>
       [] e.e = "sock.packetCreate" /\ known ->
            LET p == e.p
                ns == IF p.ty = "message" THEN [s EXCEPT !.created = Append(s.created, p.id), !.cset = s.cset \cup {p.id}]
                      ELSE IF p.ty = "ping" /\ s.proto = 4 THEN [s EXCEPT !.pingDue = Off, !.deadline = t + cfg.pt, !.created = Append(s.created, 0), !.phaseUnk = FALSE]
                      ELSE [s EXCEPT !.created = Append(s.created, 0)]
            IN /\ S' = Upd(ns)
               /\ viol' = viol \o tv \o SockCommon(e, s)
                    \o (IF p.ty = "ping" /\ s.proto = 4 /\ ~PingLegal(s.pingDue, t) /\ ~s.phaseUnk
                        THEN <<V("C07", "ping_at_wrong_time", e.sid, [due |-> s.pingDue, at |-> t])>> ELSE <<>>)
                    \o (IF p.ty = "message" /\ p.id # 0 /\ p.id \in s.cset
                        THEN <<V("C18", "packetCreate_twice", e.sid, p.id)>> ELSE <<>>)
                    \o (IF e.rs \in {"closing", "closed"} THEN <<V("C03", "send_accepted_after_close", e.sid, e.rs)>> ELSE <<>>)
               /\ UNCHANGED <<cfg, Rq, Cn>>
       [] e.e = "app.send.call" /\ known ->
            \* remember kind and callback of the message about to be created
            /\ S' = Upd([s EXCEPT !.sent = Append(s.sent, [id |-> e.id, bin |-> e.bin, cb |-> e.cb, acc |-> FALSE])])
            /\ viol' = viol \o tv /\ UNCHANGED <<cfg, Rq, Cn>>
       [] e.e = "app.send.ret" /\ known ->
            \* a Send that produced no packetCreate was discarded: drop it from the sent log
            LET acc == e.id \in SeqSet(s.created) \/ e.id \in s.flushed
                ns == IF acc THEN [s EXCEPT !.retd = s.retd \cup {e.id}] ELSE [s EXCEPT !.sent = SelectSeq(s.sent, LAMBDA m : m.id # e.id)]
            IN /\ S' = Upd(ns)
               /\ viol' = viol \o tv
                    \o (IF ~acc /\ ~s.closed /\ e.rs = "open" /\ ~s.closeCalled /\ s.parked = 0 /\ ~s.nested
                        THEN <<V("C01", "send_silently_dropped_while_open", e.sid, e.id)>> ELSE <<>>)
               /\ UNCHANGED <<cfg, Rq, Cn>>
       [] e.e = "sock.flush" /\ known ->
            LET ids == [i \in 1..Len(e.batch) |-> e.batch[i].id]
                n == Len(ids)
                okBatch == IF s.nested THEN SeqSet(ids) \subseteq SeqSet(s.created)
                           ELSE n <= Len(s.created) /\ SubSeq(s.created, 1, n) = ids
                ns == [s EXCEPT !.created = IF ~okBatch THEN <<>>
                                               ELSE IF s.nested THEN SelectSeq(s.created, LAMBDA x : x \notin SeqSet(ids))
                                               ELSE SubSeq(s.created, n + 1, Len(s.created)),
                                !.flushed = s.flushed \cup (SeqSet(ids) \ {0}), !.lastFlush = ids, !.phase = "flushed"]
            IN /\ S' = Upd(ns)
               /\ viol' = viol \o tv \o SockCommon(e, s)
                    \o (IF ~okBatch THEN <<V("C18", "flush_batch_differs_from_buffered_packets", e.sid, [batch |-> ids, buffered |-> s.created])>> ELSE <<>>)
                    \o (IF n = 0 THEN <<V("C18", "empty_flush", e.sid, "")>> ELSE <<>>)
               /\ UNCHANGED <<cfg, Rq, Cn>>
       [] e.e = "srv.flush" /\ known ->
            LET ids == [i \in 1..Len(e.batch) |-> e.batch[i].id] IN
            /\ S' = Upd([s EXCEPT !.phase = IF s.phase = "flushed" THEN "srvflushed" ELSE s.phase])
            /\ viol' = viol \o tv
                 \o (IF s.phase = "flushed" /\ ids # s.lastFlush THEN <<V("C18", "server_flush_batch_differs", e.sid, [srv |-> ids, sock |-> s.lastFlush])>> ELSE <<>>)
            /\ UNCHANGED <<cfg, Rq, Cn>>
       [] e.e = "sock.drain" /\ known ->
            \* C12: a drain after which nothing accepted is waiting any more, emitted after a graceful Close has returned (its "drain"
            \* listener is registered): that Close goes on to close the transport from inside this event
            /\ S' = Upd([s EXCEPT !.phase = "drained",
                                  !.idleDrain = IF s.idleDrain = Off /\ s.gracefulAsked /\ s.closeRet /\ ~s.hard /\ ~s.closed /\ s.created = <<>> /\ s.parked = 0
                                                /\ ~s.idleVoid THEN t ELSE s.idleDrain])
            /\ viol' = viol \o tv \o SockCommon(e, s)
                 \o (IF s.phase \notin {"srvflushed"} THEN <<V("C18", "drain_without_flush", e.sid, s.phase)>> ELSE <<>>)
            /\ UNCHANGED <<cfg, Rq, Cn>>
       [] e.e = "srv.drain" /\ known ->
            /\ S' = Upd([s EXCEPT !.phase = "idle"])
            /\ viol' = viol \o tv
                 \o (IF s.phase # "drained" THEN <<V("C18", "server_drain_without_socket_drain", e.sid, s.phase)>> ELSE <<>>)
            /\ UNCHANGED <<cfg, Rq, Cn>>
       [] e.e = "app.cb" /\ known ->
            LET want == SelectSeq(s.sent, LAMBDA m : m.cb /\ m.id \notin SeqSet(s.cbRun))
                inOrder == want # <<>> /\ want[1].id = e.id
            IN /\ S' = Upd([s EXCEPT !.cbRun = Append(s.cbRun, e.id)])
               /\ viol' = viol \o tv
                    \o (IF e.id \in SeqSet(s.cbRun) THEN <<V("C18", "callback_ran_twice", e.sid, e.id)>> ELSE <<>>)
                    \o (IF e.id \notin s.flushed THEN <<V("C18", "callback_before_flush_of_its_packet", e.sid, e.id)>> ELSE <<>>)
                    \o (IF e.id \notin SeqSet(s.cbRun) /\ ~inOrder /\ ~s.nested THEN <<V("C18", "callbacks_out_of_send_order", e.sid, [ran |-> e.id, next |-> IF want = <<>> THEN 0 ELSE want[1].id])>> ELSE <<>>)
                    \o (IF s.closed THEN <<V("C18", "callback_after_close", e.sid, e.id)>> ELSE <<>>)
               /\ UNCHANGED <<cfg, Rq, Cn>>
       [] e.e = "sock.packet" /\ known ->
            LET p == e.p
                wrong == (p.ty = "ping" /\ s.proto = 4) \/ (p.ty = "pong" /\ s.proto = 3)
            IN /\ S' = Upd([(IF wrong THEN [s EXCEPT !.causes = s.causes \cup {"error"}] ELSE s) EXCEPT !.inDispatch = (p.ty = "message")])
               /\ viol' = viol \o tv \o SockCommon(e, s) /\ UNCHANGED <<cfg, Rq, Cn>>
       [] e.e = "sock.heartbeat" /\ known ->
            \* a heartbeat accepted at the very instant of the deadline: the property's "within" leaves the
            \* boundary open, so a ping-timeout close at this same instant stays admissible (grace)
            LET g == IF s.deadline = t \/ s.grace = t THEN t ELSE Off
                ns == IF s.proto = 4 THEN [s EXCEPT !.pingDue = t + cfg.pi, !.deadline = Off, !.grace = g]
                      ELSE [s EXCEPT !.deadline = t + cfg.pi + cfg.pt, !.grace = g]
            IN /\ S' = Upd(ns) /\ viol' = viol \o tv \o SockCommon(e, s) /\ UNCHANGED <<cfg, Rq, Cn>>
       [] e.e = "sock.message" /\ known ->
            LET pos == IF \E i \in 1..Len(s.sub) : s.sub[i] = e.id THEN CHOOSE i \in 1..Len(s.sub) : s.sub[i] = e.id ELSE 0
                last == IF s.del = <<>> THEN 0
                        ELSE LET d == s.del[Len(s.del)] IN IF \E i \in 1..Len(s.sub) : s.sub[i] = d THEN CHOOSE i \in 1..Len(s.sub) : s.sub[i] = d ELSE 0
            IN /\ S' = Upd(IF e.id = 0 THEN [s EXCEPT !.inDispatch = FALSE] ELSE [s EXCEPT !.del = Append(s.del, e.id), !.inDispatch = FALSE])
               /\ viol' = IF e.id = 0 THEN viol \o tv \o SockCommon(e, s)     \* not one of the harness's numbered messages (hostile input that parses as a message)
                             \o (IF e.len > cfg.maxbuf THEN <<V("C10", "oversized_message_delivered", e.sid, [len |-> e.len, limit |-> cfg.maxbuf])>> ELSE <<>>)
                          ELSE viol \o tv \o SockCommon(e, s)
                    \o (IF e.id \notin s.may THEN <<V("C02", "delivered_message_never_eligible", e.sid, [id |-> e.id, v3lossy |-> s.v3lossy])>> ELSE <<>>)
                    \o (IF e.id \in SeqSet(s.del) THEN <<V("C02", "message_delivered_twice", e.sid, [id |-> e.id, v3lossy |-> s.v3lossy])>> ELSE <<>>)
                    \o (IF pos # 0 /\ pos < last THEN <<V("C02", "messages_delivered_out_of_order", e.sid, [id |-> e.id, v3lossy |-> s.v3lossy])>> ELSE <<>>)
                    \o (IF ~e.intact THEN <<V("C02", "delivered_bytes_differ", e.sid, [id |-> e.id, v3lossy |-> s.v3lossy])>> ELSE <<>>)
                    \o (IF e.len > cfg.maxbuf THEN <<V("C10", "oversized_message_delivered", e.sid, [len |-> e.len, limit |-> cfg.maxbuf])>> ELSE <<>>)
               /\ UNCHANGED <<cfg, Rq, Cn>>
       [] e.e = "sock.upgrading" /\ known ->
            /\ S' = Upd([s EXCEPT !.upgrading = TRUE, !.probeT = t]) /\ viol' = viol \o tv \o SockCommon(e, s) /\ UNCHANGED <<cfg, Rq, Cn>>
       [] e.e = "sock.upgrade" /\ known ->
            /\ S' = Upd([s EXCEPT !.tr = e.tr, !.nupg = s.nupg + 1, !.deadline = Off, !.upgrading = FALSE, !.noopDue = Off])
            /\ Cn' = [c \in DOMAIN Cn |-> IF Cn[c].sid = e.sid /\ Cn[c].role = "cand" /\ Cn[c].upgradeSent THEN [Cn[c] EXCEPT !.role = "main"] ELSE Cn[c]]
            /\ viol' = viol \o tv \o SockCommon(e, s)
                 \o (IF s.nupg >= 1 THEN <<V("C08", "upgraded_more_than_once", e.sid, "")>> ELSE <<>>)
                 \o (IF ~\E c \in DOMAIN Cn : Cn[c].sid = e.sid /\ Cn[c].role = "cand" /\ Cn[c].upgradeSent
                     THEN <<V("C08", "upgrade_without_upgrade_packet_on_own_candidate", e.sid, "")>> ELSE <<>>)
                 \* the switch is made only for a candidate whose probe ping the server has answered (upgrading event of this attempt)
                 \o (IF ~s.upgrading THEN <<V("C08", "upgrade_without_answered_probe", e.sid, "")>> ELSE <<>>)
            /\ UNCHANGED <<cfg, Rq>>
       [] e.e = "sock.close" /\ known ->
            LET need == ReasonCause(e.reason)
                \* (a session held in its constructor across a heartbeat instant: the ping went out before anybody could observe
                \*  it, the deadline it armed is not known here)
                okCause == CASE e.reason = "ping timeout" -> TimeoutLegal(s.deadline, t) \/ TimeoutLegal(s.grace, t) \/ s.phaseUnk
                             [] e.reason \in DocumentedReasons -> need \in s.causes
                             [] OTHER -> FALSE
                modelClients == {x \in DOMAIN SS : ~SS[x].closed} \ {e.sid}
            IN /\ S' = Upd([s EXCEPT !.closed = TRUE, !.closeT = t, !.nclose = s.nclose + 1, !.rank = Rank("closed"),
                                     !.closeReason = IF s.nclose = 0 THEN e.reason ELSE s.closeReason,
                                     !.pingDue = Off, !.deadline = Off, !.closeAsked = Off, !.noopDue = Off])
               /\ viol' = viol \o tv \o SockCommon(e, s)
                    \o (IF s.nclose >= 1 THEN <<V("C03", "second_close_event", e.sid, e.reason)>> ELSE <<>>)
                    \o (IF e.reason \notin DocumentedReasons THEN <<V("C03", "undocumented_close_reason", e.sid, e.reason)>> ELSE <<>>)
                    \o (IF e.reason \in DocumentedReasons /\ ~okCause /\ s.nclose = 0
                        THEN <<V(IF e.reason = "ping timeout" THEN "C07" ELSE "C03",
                                 IF e.reason = "ping timeout" THEN "ping_timeout_at_wrong_time" ELSE "closed_without_cause",
                                 e.sid, [reason |-> e.reason, causes |-> s.causes, deadline |-> s.deadline, at |-> t])>> ELSE <<>>)
                    \o (IF e.rs # "closed" THEN <<V("C03", "close_event_with_state_not_closed", e.sid, e.rs)>> ELSE <<>>)
                    \* C12: a graceful Close whose last packets have gone out closes the session ("forced close") as soon as the transport can
                    \* carry the close - at once on a stream, with the client's next poll on polling - not at the next heartbeat deadline
                    \o (IF e.reason = "ping timeout" /\ s.nclose = 0 /\ s.idleDrain # Off /\ s.idleDrain < t /\ ~s.hard /\ s.parked = 0
                           /\ (s.tr # "polling" \/ s.pollAfterIdle)
                        THEN <<V("C12", "graceful_close_stalled_after_drain", e.sid, [drained |-> s.idleDrain, closed |-> t])>> ELSE <<>>)
                    \o (IF e.count < 0 \/ e.count > 1000000 THEN <<V("C04", "client_count_underflow", e.sid, e.count)>> ELSE <<>>)
               /\ UNCHANGED <<cfg, Rq, Cn>>
       [] e.e = "app.close.call" /\ known ->
            /\ S' = Upd([s EXCEPT !.causes = s.causes \cup {"app"}, !.closeCalled = TRUE,
                                  !.closeAsked = IF s.closed \/ s.closeAsked # Off THEN s.closeAsked ELSE t,
                                  !.buffered = IF e.discard THEN <<>> ELSE s.created,
                                  !.hard = s.hard \/ e.discard,
                                  !.gracefulAsked = s.gracefulAsked \/ (~e.discard /\ e.rs = "open" /\ ~s.closed),
                                  \* messages whose Send had been accepted AND had returned when a graceful Close was asked of an open session
                                  \* (a Close issued from inside a Send's own packetCreate listener precedes the buffering of that packet)
                                  !.accAtClose = IF ~e.discard /\ e.rs = "open" /\ ~s.closed /\ ~s.gracefulAsked
                                                 THEN s.retd ELSE s.accAtClose])
            /\ viol' = viol \o tv /\ UNCHANGED <<cfg, Rq, Cn>>
       [] e.e = "app.close.ret" /\ known ->
            \* (a graceful Close that returns with nothing accepted waiting any more has closed the transport itself, or must not
            \*  wait for a drain that has already been emitted)
            /\ S' = Upd([s EXCEPT !.closeRet = s.gracefulAsked,
                                  !.idleDrain = IF s.idleDrain = Off /\ s.gracefulAsked /\ ~s.hard /\ ~s.closed /\ s.created = <<>> /\ s.parked = 0
                                                   /\ s.phase \in {"idle", "drained"}
                                                /\ ~s.idleVoid THEN t ELSE s.idleDrain])
            /\ viol' = viol \o tv /\ UNCHANGED <<cfg, Rq, Cn>>
       [] e.e = "app.srvclose.call" ->
            /\ S' = [x \in DOMAIN SS |-> [SS[x] EXCEPT !.causes = SS[x].causes \cup {"app"}, !.closeCalled = TRUE, !.hard = TRUE]]
            /\ viol' = viol \o tv /\ UNCHANGED <<cfg, Rq, Cn>>
       [] e.e = "app.srvclose.ret" ->
            /\ viol' = viol \o tv /\ UNCHANGED <<cfg, S, Rq, Cn>>
       [] e.e = "gate.park" /\ Has(SS, e.id) ->
            /\ S' = Put(SS, e.id, [SS[e.id] EXCEPT !.parked = SS[e.id].parked + 1, !.parkT = IF SS[e.id].parked = 0 THEN t ELSE SS[e.id].parkT,
                                                      !.parkedRW = IF e.point = "rw.write" THEN SS[e.id].parkedRW + 1 ELSE SS[e.id].parkedRW])
            /\ viol' = viol \o tv /\ UNCHANGED <<cfg, Rq, Cn>>
       [] e.e = "gate.release" /\ Has(SS, e.id) ->
            \* obligations that fell due while parked are re-based at the release instant
            LET s0 == SS[e.id]
                n == IF s0.parked > 0 THEN s0.parked - 1 ELSE 0
                rebase(x) == IF n = 0 /\ x # Off /\ x < t THEN Off ELSE x
                \* a goroutine of the session was held at a gate while time passed (replay of a model behaviour with armed sleeps):
                \* what the session then did not do in time proves nothing
                held == s0.parkT # Off /\ t > s0.parkT
            IN /\ S' = Put(SS, e.id, [s0 EXCEPT !.idleVoid = s0.idleVoid \/ held, !.idleDrain = IF held THEN Off ELSE s0.idleDrain, !.parked = n, !.parkedRW = IF e.point = "rw.write" /\ s0.parkedRW > 0 THEN s0.parkedRW - 1 ELSE s0.parkedRW, !.pingDue = rebase(s0.pingDue), !.deadline = rebase(s0.deadline), !.closeAsked = rebase(s0.closeAsked), !.noopDue = rebase(s0.noopDue)])
               /\ viol' = viol \o tv /\ UNCHANGED <<cfg, Rq, Cn>>
       [] e.e = "reent" /\ known ->
            \* a Send issued from inside the packetCreate listener of another Send completes before it: their relative
            \* order is not defined by "in call order" (the outer call started first, the inner one finished first)
            /\ S' = Upd(IF e.event = "packetCreate" /\ e.api = "send" THEN [s EXCEPT !.nested = TRUE, !.sloppy = TRUE] ELSE s)
            /\ viol' = viol \o tv /\ UNCHANGED <<cfg, Rq, Cn>>
       [] e.e = "cause" /\ known ->
            /\ S' = Upd([s EXCEPT !.causes = s.causes \cup {e.class}]) /\ viol' = viol \o tv /\ UNCHANGED <<cfg, Rq, Cn>>

       \* ------------------------------------------------------------ HTTP client side
       [] e.e = "cli.req" ->
            LET sid == e.sid
                live == Has(SS, sid)
                s0 == IF live THEN SS[sid] ELSE s
                overlap == live /\ ((e.kind = "poll" /\ s0.pollOut # 0) \/ (e.kind = "post" /\ s0.dataOut # 0))
                ns == IF ~live THEN s0
                      ELSE IF overlap THEN [s0 EXCEPT !.causes = s0.causes \cup {"error"}]
                      ELSE IF e.kind = "poll" THEN [s0 EXCEPT !.pollOut = e.rid, !.pollAfterIdle = s0.pollAfterIdle \/ (s0.idleDrain # Off /\ s0.parked = 0),
                                                                !.noopDue = IF ProbedCand(sid) /\ s0.tr = "polling" /\ ~s0.closed THEN t + 100000 ELSE Off]
                      ELSE IF e.kind = "post" THEN [s0 EXCEPT !.dataOut = e.rid] ELSE s0
                partner == IF ~overlap THEN 0 ELSE IF e.kind = "poll" THEN s0.pollOut ELSE s0.dataOut
            IN /\ Rq' = Put(Rq, e.rid, [kind |-> e.kind, sid |-> sid, nresp |-> 0, aborted |-> FALSE, returned |-> FALSE, overlap |-> overlap, partner |-> partner,
                                         toClosed |-> live /\ s0.closed, inCloseWindow |-> live /\ s0.parked > 0, duringRW |-> live /\ s0.parkedRW > 0, msgs |-> IF live /\ e.kind = "post" THEN s0.lastPost ELSE <<>>, status |-> 0, t |-> t, rt |-> Off])
               /\ S' = IF live THEN Put(SS, sid, ns) ELSE SS
               /\ viol' = viol \o tv /\ UNCHANGED <<cfg, Cn>>
       [] e.e = "cli.post" /\ known ->
            \* well-formed messages before a close packet, submitted on the current transport of an open session, are owed to the application
            LET elig == s.tr = "polling" /\ ~s.closed /\ s.closeAsked = Off /\ ~s.closeCalled
                ids == MsgIds(BeforeClose(e.pk))
                \* engine.io-go-parser loses what follows a string packet in a v3 binary payload (known finding)
                lossy == e.enc = "v3bin" /\ \E i \in 1..(Len(e.pk) - 1) : ~e.pk[i].bin
                ns == [s EXCEPT !.sub = IF elig THEN s.sub \o ids ELSE s.sub,
                                !.v3lossy = s.v3lossy \/ lossy,
                                !.may = IF s.tr = "polling" /\ ~s.closed THEN s.may \cup SeqSet(ids) ELSE s.may,
                                !.lastPost = IF elig THEN ids ELSE <<>>,
                                !.causes = s.causes \cup (IF HasTy(e.pk, "close") THEN {"peer"} ELSE {})
                                                    \cup (IF HasTy(e.pk, "garbage") THEN {"parse", "error"} ELSE {})]
            IN /\ S' = Upd(ns) /\ viol' = viol \o tv /\ UNCHANGED <<cfg, Rq, Cn>>
       [] e.e = "cli.resp" ->
            LET rq == IF Has(Rq, e.rid) THEN Rq[e.rid] ELSE [kind |-> e.kind, sid |-> "", nresp |-> 0, aborted |-> FALSE, returned |-> FALSE,
                                                              overlap |-> FALSE, partner |-> 0, toClosed |-> FALSE, inCloseWindow |-> FALSE, duringRW |-> FALSE, msgs |-> <<>>, status |-> 0, t |-> t, rt |-> Off]
                sid == rq.sid
                live == sid # "" /\ Has(SS, sid)
                s0 == IF live THEN SS[sid] ELSE s
                rc == IF live /\ e.status = 200 /\ rq.kind = "poll" THEN Receive(s0, sid, e.pk, <<>>) ELSE [s |-> s0, v |-> <<>>]
                s2 == IF rq.kind = "poll" /\ rc.s.pollOut = e.rid THEN [rc.s EXCEPT !.pollOut = 0, !.noopDue = Off]
                      ELSE IF rq.kind = "post" /\ rc.s.dataOut = e.rid THEN [rc.s EXCEPT !.dataOut = 0] ELSE rc.s
            IN /\ Rq' = Put(Rq, e.rid, [rq EXCEPT !.nresp = rq.nresp + 1, !.status = e.status, !.rt = t])
               /\ S' = IF live THEN Put(SS, sid, s2) ELSE SS
               /\ viol' = viol \o tv \o rc.v
                    \o (IF rq.nresp >= 1 THEN <<V("C11", "second_response_to_one_request", sid, e.rid)>> ELSE <<>>)
                    \o (IF e.nwh > 1 THEN <<V("C11", "second_response_to_one_request", sid, e.rid)>> ELSE <<>>)
                    \* of two overlapping requests one is refused: which of them reaches the transport first is the server's business
                    \* (a request may be overtaken between the router and the transport), so the breach is that NEITHER is
                    \o (IF e.status # 400 /\ \E x \in DOMAIN Rq : x # e.rid /\ (rq.partner = x \/ Rq[x].partner = e.rid) /\ Rq[x].kind = rq.kind
                                                                /\ Rq[x].status \notin {0, 400}
                                                                \* (.. and the other was still unanswered when this one may have reached the transport: a
                                                                \*  request issued at the very instant its partner is answered may have been overtaken by
                                                                \*  that answer on its way - only a partner answered LATER was certainly still pending)
                                                                /\ Rq[x].rt > rq.t
                                                                \* (a request issued while a response of the session was held inside its write: the server
                                                                \*  had done with that request already, only the harness made the two overlap)
                                                                /\ ~rq.duringRW /\ ~Rq[x].duringRW
                        THEN <<V("C11", "overlapping_request_not_refused", sid, [rid |-> e.rid, status |-> e.status])>> ELSE <<>>)
                    \o (IF rq.toClosed /\ ~(e.status = 400 /\ e.code = 1) THEN <<V("C04", "closed_session_still_reachable", sid, [rid |-> e.rid, status |-> e.status])>> ELSE <<>>)
                    \* (a session that closed while the payload was being processed - its state is already closed, the close event
                    \*  still to come - drops the remaining packets: the acknowledgement then says nothing about them)
                    \o (IF live /\ rq.kind = "post" /\ e.okAck /\ ~s0.closed /\ e.rsNow = "open" /\ rq.msgs # <<>> /\ ~(SeqSet(rq.msgs) \subseteq SeqSet(s0.del))
                        THEN <<V("C11", "ok_before_all_packets_processed", sid, [rid |-> e.rid, missing |-> SeqSet(rq.msgs) \ SeqSet(s0.del), v3lossy |-> s0.v3lossy])>> ELSE <<>>)
                    \o (IF live /\ e.status = 200 /\ rq.kind = "poll" /\ (~e.decodeOk \/ ~e.clenOk)
                        THEN <<V("C16", "poll_body_not_decodable", sid, [rid |-> e.rid, decodeOk |-> e.decodeOk, clenOk |-> e.clenOk])>> ELSE <<>>)
               /\ UNCHANGED <<cfg, Cn>>
       [] e.e = "cli.resp.extra" ->
            /\ viol' = Append(viol \o tv, V("C11", "second_response_to_one_request", "", e.rid)) /\ S' = SS /\ UNCHANGED <<cfg, Rq, Cn>>
       [] e.e = "cli.abort" ->
            LET rq == Rq[e.rid] IN
            /\ Rq' = Put(Rq, e.rid, [rq EXCEPT !.aborted = TRUE])
            /\ S' = IF Has(SS, rq.sid) THEN Put(SS, rq.sid, [SS[rq.sid] EXCEPT !.causes = SS[rq.sid].causes \cup {"error"}]) ELSE SS
            /\ viol' = viol \o tv /\ UNCHANGED <<cfg, Cn>>
       [] e.e = "cli.ret" ->
            LET rq == Rq[e.rid] IN
            /\ Rq' = Put(Rq, e.rid, [rq EXCEPT !.returned = TRUE])
            /\ S' = SS
            /\ viol' = viol \o tv
                 \o (IF ~e.responded /\ ~rq.aborted THEN <<V("C11", "handler_returned_without_response", rq.sid, [rid |-> e.rid, kind |-> rq.kind, inCloseWindow |-> rq.inCloseWindow])>> ELSE <<>>)
            /\ UNCHANGED <<cfg, Cn>>

       \* ------------------------------------------------------------ socket (ws / wt) client side
       [] e.e = "cli.ws.dial" ->
            /\ Cn' = Put(Cn, e.cid, [sid |-> e.sid, role |-> IF e.sid = "" THEN "main" ELSE "cand", upgradeSent |-> FALSE, probed |-> FALSE,
                                    ponged |-> FALSE, closed |-> FALSE,
                                    \* a candidate for a session that has already switched must be closed, never probed
                                    lateCand |-> e.sid # "" /\ Has(SS, e.sid) /\ SS[e.sid].nupg > 0,
                                    toClosed |-> e.sid # "" /\ Has(SS, e.sid) /\ SS[e.sid].closed])
            /\ S' = SS /\ viol' = viol \o tv /\ UNCHANGED <<cfg, Rq>>
       [] e.e = "cli.ws.open" ->
            /\ S' = SS /\ UNCHANGED <<cfg, Rq, Cn>>
            /\ viol' = viol \o tv \o (IF Has(Cn, e.cid) /\ Cn[e.cid].toClosed
                                       THEN <<V("C04", "closed_session_still_reachable", e.sid, [cid |-> e.cid, via |-> "websocket upgrade accepted"])>> ELSE <<>>)
       [] e.e = "cli.ws.recv" ->
            LET c == Cn[e.cid]
                sid == e.sid
                live == sid # "" /\ Has(SS, sid)
                isMain == c.role = "main"
                rc == IF live /\ isMain THEN Receive(SS[sid], sid, <<e.pk>>, <<>>) ELSE [s |-> s, v |-> <<>>]
            IN /\ Cn' = Put(Cn, e.cid, [c EXCEPT !.sid = sid, !.ponged = c.ponged \/ (e.pk.ty = "pong" /\ e.pk.d = "probe")])
               /\ S' = IF live /\ isMain THEN Put(SS, sid, rc.s)
                       ELSE IF live /\ c.role = "cand" /\ e.pk.ty = "pong" /\ e.pk.d = "probe" /\ SS[sid].pollOut # 0 /\ SS[sid].tr = "polling" /\ ~SS[sid].closed
                       THEN Put(SS, sid, [SS[sid] EXCEPT !.noopDue = t + 100000])
                       ELSE SS
               /\ viol' = viol \o tv \o rc.v
                    \o (IF ~isMain /\ e.pk.ty = "message" THEN <<V("C08", "message_sent_to_candidate_before_upgrade", sid, e.pk.id)>> ELSE <<>>)
                    \o (IF c.lateCand /\ e.pk.ty = "pong" THEN <<V("C08", "candidate_entertained_after_upgrade", sid, e.cid)>> ELSE <<>>)
                    \* two candidates of one session probed and alive at the same time
                    \o (IF e.pk.ty = "pong" /\ c.role = "cand" /\ \E c2 \in DOMAIN Cn : c2 # e.cid /\ Cn[c2].sid = sid /\ Cn[c2].role = "cand"
                                                                                   /\ Cn[c2].ponged /\ ~Cn[c2].closed
                        THEN <<V("C08", "second_candidate_entertained", sid, e.cid)>> ELSE <<>>)
               /\ UNCHANGED <<cfg, Rq>>
       [] e.e = "cli.ws.send" ->
            LET c == Cn[e.cid]
                sid == c.sid
                live == sid # "" /\ Has(SS, sid)
                s0 == IF live THEN SS[sid] ELSE s
                elig == live /\ c.role = "main" /\ ~s0.closed /\ s0.closeAsked = Off /\ ~s0.closeCalled /\ e.pk.ty = "message"
                \* a client that switches without having been ponged or with a poll still outstanding does not follow the
                \* protocol: ordering across that switch is its own business (C01 speaks of conformant clients)
                sloppyNow == e.pk.ty = "upgrade" /\ live /\ (~c.ponged \/ s0.pollOut # 0)
                ns == [s0 EXCEPT !.sloppy = s0.sloppy \/ sloppyNow,
                                 !.sub = IF elig THEN Append(s0.sub, e.pk.id) ELSE s0.sub,
                                 \* (a client that has sent its upgrade packet uses the new transport at once: those messages belong to
                                 \*  the session as soon as the switch is made)
                                 !.may = IF live /\ (c.role = "main" \/ (c.role = "cand" /\ c.upgradeSent)) /\ ~s0.closed /\ e.pk.ty = "message"
                                         THEN s0.may \cup {e.pk.id} ELSE s0.may,
                                 !.causes = s0.causes \cup (IF e.pk.ty = "garbage" THEN {"parse", "error"} ELSE {})
                                                      \cup (IF e.pk.ty = "close" THEN {"peer"} ELSE {})]
            IN /\ Cn' = Put(Cn, e.cid, [c EXCEPT !.upgradeSent = c.upgradeSent \/ e.pk.ty = "upgrade", !.probed = c.probed \/ (e.pk.ty = "ping" /\ e.pk.d = "probe")])
               /\ S' = IF live THEN Put(SS, sid, ns) ELSE SS
               /\ viol' = viol \o tv /\ UNCHANGED <<cfg, Rq>>
       [] e.e \in {"cli.ws.drop", "cli.ws.closeframe"} ->
            LET c == Cn[e.cid]
                sid == c.sid
                live == sid # "" /\ Has(SS, sid) /\ c.role = "main"
            IN /\ Cn' = Put(Cn, e.cid, [c EXCEPT !.closed = TRUE])
               /\ S' = IF live THEN Put(SS, sid, [SS[sid] EXCEPT !.causes = SS[sid].causes \cup {"peer", "error"}])
                       ELSE IF sid # "" /\ Has(SS, sid) THEN Put(SS, sid, [SS[sid] EXCEPT !.noopDue = Off]) ELSE SS
               /\ viol' = viol \o tv /\ UNCHANGED <<cfg, Rq>>
       [] e.e = "cli.ws.closed" ->
            /\ Cn' = Put(Cn, e.cid, [Cn[e.cid] EXCEPT !.closed = TRUE, !.role = IF Cn[e.cid].role = "cand" THEN "dead" ELSE Cn[e.cid].role])
            /\ S' = IF Cn[e.cid].role = "main" /\ Has(SS, Cn[e.cid].sid) THEN Put(SS, Cn[e.cid].sid, [SS[Cn[e.cid].sid] EXCEPT !.closeSeen = TRUE])
                    ELSE IF Cn[e.cid].role = "cand" /\ Has(SS, Cn[e.cid].sid) THEN Put(SS, Cn[e.cid].sid, [SS[Cn[e.cid].sid] EXCEPT !.noopDue = IF Cn[e.cid].ponged THEN Off ELSE @,
                                                                       \* (the attempt of THIS candidate is over - unless another live candidate of the session has
                                                                       \*  sent a probe too: which of them the server is entertaining cannot be told from outside)
                                                                       !.upgrading = IF (Cn[e.cid].ponged \/ Cn[e.cid].probed)
                                                                                        /\ ~\E c2 \in DOMAIN Cn : c2 # e.cid /\ Cn[c2].sid = Cn[e.cid].sid /\ Cn[c2].role = "cand"
                                                                                                                  /\ ~Cn[c2].closed /\ Cn[c2].probed
                                                                                     THEN FALSE ELSE @])
                    ELSE SS
            /\ viol' = viol \o tv /\ UNCHANGED <<cfg, Rq>>

       \* ------------------------------------------------------------ quiescent snapshots
       [] e.e = "snapshot" ->
            LET want == {x \in DOMAIN SS : ~SS[x].closed}
                got == SeqSet(e.clients)
                badRs == {x \in DOMAIN SS : x \in DOMAIN e.socks /\ ((e.socks[x] = "closed") # SS[x].closed)}
                stuckPoll == {x \in DOMAIN SS : SS[x].closed /\ (SS[x].pollOut # 0) /\ ~Rq[SS[x].pollOut].aborted}
                owed == {x \in want : SS[x].nrcv < Len(SS[x].sent) /\ e.drained}
                \* C12: a session that ended ONLY because of a graceful Close (no Close(true), no shutdown, no other cause) and whose
                \* client was reading (it saw the close packet / the teardown) has been handed everything accepted before that Close
                rcvdIds(x) == {SS[x].sent[i].id : i \in 1..Min2(SS[x].nrcv, Len(SS[x].sent))}
                lostAtClose == {x \in DOMAIN SS : SS[x].closed /\ SS[x].closeReason = "forced close" /\ SS[x].gracefulAsked /\ ~SS[x].hard
                                                  /\ SS[x].causes \subseteq {"app"} /\ SS[x].closeSeen /\ ~SS[x].sloppy /\ ~SS[x].nested
                                                  /\ ~((SS[x].accAtClose \cap {SS[x].sent[i].id : i \in 1..Len(SS[x].sent)}) \subseteq rcvdIds(x))}
            IN /\ S' = SS
               /\ viol' = IF e.parked > 0 THEN viol \o tv      \* not quiescent while somebody is parked at a gate
                          ELSE viol \o tv
                    \o (IF got # want THEN <<V("C04", "client_table_differs_from_live_sessions", "", [table |-> got, live |-> want])>> ELSE <<>>)
                    \o (IF e.count # Cardinality(want) THEN <<V("C04", "client_count_differs_from_live_sessions", "", [count |-> e.count, live |-> Cardinality(want)])>> ELSE <<>>)
                    \o (IF ~e.reach THEN <<V("C04", "session_not_reachable_under_its_id", "", "")>> ELSE <<>>)
                    \o (IF badRs # {} THEN <<V("C03", "state_closed_without_close_event_or_vice_versa", CHOOSE x \in badRs : TRUE, "")>> ELSE <<>>)
                    \o (IF lostAtClose # {} THEN <<V("C12", "buffered_data_lost_on_graceful_close", CHOOSE x \in lostAtClose : TRUE,
                                                      [accepted |-> SS[CHOOSE x \in lostAtClose : TRUE].accAtClose, received |-> SS[CHOOSE x \in lostAtClose : TRUE].nrcv])>> ELSE <<>>)
                    \o (IF stuckPoll # {} THEN <<V("C12", "pending_poll_not_released_at_close", CHOOSE x \in stuckPoll : TRUE,
                                                    [inCloseWindow |-> Rq[SS[CHOOSE x \in stuckPoll : TRUE].pollOut].inCloseWindow])>> ELSE <<>>)
               /\ UNCHANGED <<cfg, Rq, Cn>>
       [] e.e = "expect" /\ known ->
            \* explicit expectations stated by a scenario at a quiescent point
            /\ S' = SS
            /\ viol' = viol \o tv
                 \o (IF e.what = "drained" /\ ~s.closed /\ s.nrcv < Len(s.sent)
                     THEN <<V("C01", "message_never_received", e.sid, [received |-> s.nrcv, sent |-> Len(s.sent)])>> ELSE <<>>)
                 \o (IF e.what = "delivered" /\ ~s.closed /\ ~(SeqSet(s.sub) \subseteq SeqSet(s.del))
                     THEN <<V("C02", "submitted_message_not_delivered", e.sid, [missing |-> SeqSet(s.sub) \ SeqSet(s.del), v3lossy |-> s.v3lossy])>> ELSE <<>>)
                 \o (IF e.what = "open" /\ s.closed THEN <<V("C03", "session_closed_unexpectedly", e.sid, "")>> ELSE <<>>)
                 \o (IF e.what = "closed" /\ ~s.closed THEN <<V("C12", "session_not_closed", e.sid, "")>> ELSE <<>>)
                 \o (IF e.what = "upgraded" /\ s.nupg = 0 THEN <<V("C08", "conformant_upgrade_did_not_complete", e.sid, "")>> ELSE <<>>)
                 \o (IF e.what = "notupgrading" /\ ~s.closed /\ e.upg THEN <<V("C08", "still_marked_upgrading_after_failed_attempt", e.sid, "")>> ELSE <<>>)
            /\ UNCHANGED <<cfg, Rq, Cn>>
       [] e.e = "c10.body" ->
            \* an oversized body is refused with 413 and not consumed beyond the limit plus one read buffer (64 KiB)
            /\ S' = SS
            /\ viol' = viol \o tv
                 \o (IF e.size > e.limit /\ e.status # 413 THEN <<V("C10", "oversized_body_not_refused_with_413", "", [size |-> e.size, limit |-> e.limit, status |-> e.status])>> ELSE <<>>)
                 \o (IF e.size <= e.limit /\ e.status # 200 THEN <<V("C10", "body_within_limit_refused", "", [size |-> e.size, limit |-> e.limit, status |-> e.status])>> ELSE <<>>)
                 \o (IF e.consumed > e.limit + 65536 THEN <<V("C10", "oversized_body_consumed", "", [consumed |-> e.consumed, limit |-> e.limit])>> ELSE <<>>)
            /\ UNCHANGED <<cfg, Rq, Cn>>
       [] e.e = "failwrite" ->
            \* a response whose write failed is still the one response of its request: its handler has returned, nobody wrote again
            /\ S' = SS
            /\ viol' = viol \o tv
                 \o (IF ~e.returned THEN <<V("C11", "handler_stuck_after_failed_write", "", [which |-> e.which, rid |-> e.rid])>> ELSE <<>>)
                 \o (IF e.nwh > 1 THEN <<V("C11", "second_response_to_one_request", "", [which |-> e.which, rid |-> e.rid, nwh |-> e.nwh])>> ELSE <<>>)
            /\ UNCHANGED <<cfg, Rq, Cn>>
       [] e.e = "candbogus" ->
            \* a connection that named the session but no stream transport: past the upgrade timeout the server has closed it
            /\ S' = SS
            /\ viol' = viol \o tv \o (IF e.stillOpen THEN <<V("C08", "bogus_candidate_connection_left_open", "", [transport |-> e.transport])>> ELSE <<>>)
            /\ UNCHANGED <<cfg, Rq, Cn>>
       [] e.e = "cons.expect" ->
            \* conformance of the real server to Construct.tla: what can be seen from outside of the model state after a replayed step
            \* (the ready state once the session can be got hold of, the close events once the application has been handed it)
            LET x == e.exp  y == e.act
                diffs == (IF x.table # y.table THEN <<"table">> ELSE <<>>) \o (IF x.count # y.count THEN <<"count">> ELSE <<>>)
                      \o (IF x.conn # y.conn THEN <<"conn">> ELSE <<>>)
                      \o (IF y.rs # "" /\ x.rs # y.rs THEN <<"rs">> ELSE <<>>)
                      \o (IF y.nclose >= 0 /\ x.conn > 0 /\ x.nclose # y.nclose THEN <<"nclose">> ELSE <<>>)
            IN /\ S' = SS /\ UNCHANGED <<cfg, Rq, Cn>>
               /\ viol' = viol \o tv \o (IF diffs = <<>> THEN <<>> ELSE <<V("NONCONF", "constructor_state_differs", "", [after |-> e.a, fields |-> diffs, exp |-> x, act |-> y])>>)
                    \o (IF y.count < 0 \/ y.count > 1000000 THEN <<V("C04", "client_count_underflow", "", y.count)>> ELSE <<>>)
                    \o (IF y.conn > 1 THEN <<V("C06", "second_connection_event", "", y.conn)>> ELSE <<>>)
       [] e.e = "upgr.expect" ->
            \* conformance of the real session to Upgrade.tla: flags, transport, number of switches, and for every candidate dialled
            \* so far whether its connection has been closed
            LET x == e.exp  y == e.act
                cs == DOMAIN y.closed \cap DOMAIN x.closed
                diffs == (IF x.upgrading # y.upgrading THEN <<"upgrading">> ELSE <<>>) \o (IF x.upgraded # y.upgraded THEN <<"upgraded">> ELSE <<>>)
                      \o (IF x.tr # y.tr THEN <<"tr">> ELSE <<>>) \o (IF x.nswitch # y.nswitch THEN <<"nswitch">> ELSE <<>>)
                      \o (IF \E c \in cs : x.closed[c] # y.closed[c] THEN <<"closed">> ELSE <<>>)
                      \o (IF "probed" \in DOMAIN x /\ "probed" \in DOMAIN y /\ \E c \in DOMAIN y.probed \cap DOMAIN x.probed : x.probed[c] # y.probed[c]
                          THEN <<"probed">> ELSE <<>>)
            IN /\ S' = SS /\ UNCHANGED <<cfg, Rq, Cn>>
               /\ viol' = viol \o tv \o (IF diffs = <<>> THEN <<>> ELSE <<V("NONCONF", "upgrade_state_differs", e.sid, [after |-> e.a, cand |-> e.c, fields |-> diffs, exp |-> x, act |-> y])>>)
                    \o (IF y.nswitch > 1 THEN <<V("C08", "upgraded_more_than_once", e.sid, y.nswitch)>> ELSE <<>>)
       [] e.e = "hctx.expect" ->
            \* conformance of types.HttpContext to HttpCtx.tla at settled points: done flag, WriteHeader calls that reached the
            \* ResponseWriter, close events, refused writes
            LET x == e.exp  y == e.act
                diffs == (IF x.done # y.done THEN <<"done">> ELSE <<>>) \o (IF x.nwh # y.nwh THEN <<"nwh">> ELSE <<>>)
                      \o (IF x.nclose # y.nclose THEN <<"nclose">> ELSE <<>>) \o (IF x.refused # y.refused THEN <<"refused">> ELSE <<>>)
            IN /\ S' = SS /\ UNCHANGED <<cfg, Rq, Cn>>
               /\ viol' = viol \o tv \o (IF diffs = <<>> THEN <<>> ELSE <<V("NONCONF", "http_context_state_differs", "", [after |-> e.a, fields |-> diffs, exp |-> x, act |-> y])>>)
                    \o (IF y.nwh > 1 THEN <<V("C11", "second_response_to_one_request", "", [nwh |-> y.nwh])>> ELSE <<>>)
                    \o (IF y.nwh >= 1 /\ ~y.done THEN <<V("C11", "request_answerable_after_its_response", "", [nwh |-> y.nwh])>> ELSE <<>>)
                    \o (IF y.nclose > 1 THEN <<V("C11", "request_closed_twice", "", [nclose |-> y.nclose])>> ELSE <<>>)
       [] e.e = "upgr.final" ->
            \* the one candidate the server is entertaining has sent its probe: it has been answered, whenever the probe was sent
            /\ S' = SS /\ UNCHANGED <<cfg, Rq, Cn>>
            /\ viol' = viol \o tv \o (IF e.upgrading /\ e.sentProbe /\ ~e.ponged
                                       THEN <<V("C08", "probe_of_entertained_candidate_not_answered", e.sid, "")>> ELSE <<>>)
       [] e.e = "earlymsg" ->
            \* a message sent by a client that has read its open packet belongs to an open session: it is delivered
            /\ S' = SS /\ UNCHANGED <<cfg, Rq, Cn>>
            /\ viol' = viol \o tv \o (IF e.held /\ e.sent /\ ~e.delivered
                                       THEN <<V("C02", "message_before_connection_event_lost", e.sid, [kind |-> e.kind, point |-> e.point])>> ELSE <<>>)
       [] e.e = "tickwin" ->
            \* the tick of the refreshed timer was held before the timer's mutex when the heartbeat packet was accepted: it is stale
            /\ S' = SS
            /\ viol' = viol \o tv \o (IF e.held > 0 /\ e.closed THEN <<V("C07", "closed_by_the_deadline_a_heartbeat_had_moved", "", [proto |-> e.proto])>> ELSE <<>>)
            /\ UNCHANGED <<cfg, Rq, Cn>>
       [] e.e = "openwin" ->
            \* the constructor window (family direct): the peer's connection failed or closed while the handshaking goroutine was
            \* held inside the constructor. The application must not be handed a session whose transport was already gone, and
            \* by now (a full heartbeat period later) the table must not hold it
            /\ S' = SS
            /\ viol' = viol \o tv
                 \o (IF e.held /\ e.handed /\ e.trs = "closed"
                     THEN <<V("C03", "handed_over_after_transport_closed", "", [point |-> e.point, fault |-> e.fault])>> ELSE <<>>)
                 \o (IF e.held /\ e.left # 0
                     THEN <<V("C04", "dead_session_left_in_table", "", [point |-> e.point, fault |-> e.fault, left |-> e.left])>> ELSE <<>>)
            /\ UNCHANGED <<cfg, Rq, Cn>>
       [] e.e = "hostile.done" ->
            \* work in proportion to the bytes received: a generous fixed budget plus a per-kilobyte allowance of CPU time
            /\ S' = SS
            /\ viol' = viol \o tv \o (IF e.cpu_ms > 1500 + (e.bytes \div 1000) * 20
                                       THEN <<V("C09", "work_out_of_proportion", e.sid, [class |-> e.class, bytes |-> e.bytes, cpu_ms |-> e.cpu_ms])>> ELSE <<>>)
            /\ UNCHANGED <<cfg, Rq, Cn>>
       [] e.e = "model.expect" ->
            \* conformance of the real session to EioSession.tla: the projection of the model state after a replayed step
            \* against the same projection of the real session (reported as NONCONF: a disagreement of model and code,
            \* not by itself a breach of a property)
            LET x == e.exp  y == e.act
                \* an aborted poll ("gone" in the model) is no longer pending for the client
                pollOK == (x.poll = "pending") = (y.poll = "pending")
                diffs == (IF x.rs # y.rs THEN <<"rs">> ELSE <<>>) \o (IF x.tr # y.tr THEN <<"tr">> ELSE <<>>)
                      \o (IF x.upgrading # y.upgrading THEN <<"upgrading">> ELSE <<>>) \o (IF x.upgraded # y.upgraded THEN <<"upgraded">> ELSE <<>>)
                      \o (IF x.reg # y.reg THEN <<"reg">> ELSE <<>>) \o (IF x.count # y.count THEN <<"count">> ELSE <<>>)
                      \o (IF x.wr # y.wr THEN <<"wr">> ELSE <<>>) \o (IF ~pollOK THEN <<"poll">> ELSE <<>>)
                      \o (IF x.nclose # y.nclose THEN <<"nclose">> ELSE <<>>) \o (IF x.nrcvd # y.nrcvd THEN <<"nrcvd">> ELSE <<>>)
                      \* the data request in progress: what has been written to it, whether its handler has returned
                      \o (IF "dresp" \in DOMAIN x /\ "dresp" \in DOMAIN y /\ x.dresp # y.dresp THEN <<"dresp">> ELSE <<>>)
                      \o (IF "dret" \in DOMAIN x /\ "dret" \in DOMAIN y /\ x.dret # y.dret THEN <<"dret">> ELSE <<>>)
            IN /\ S' = SS /\ UNCHANGED <<cfg, Rq, Cn>>
               /\ viol' = viol \o tv \o (IF diffs = <<>> THEN <<>> ELSE <<V("NONCONF", "model_state_differs", e.sid, [after |-> e.a, fields |-> diffs, exp |-> x, act |-> y])>>)
       [] e.e = "reg.expect" ->
            \* conformance of the real server to Registry.tla: table, count, and - for the sessions the harness can get hold of -
            \* ready state and number of close events, after every replayed step (NONCONF, as above)
            LET x == e.exp  y == e.act
                ids == DOMAIN y.rs
                diffs == (IF x.table # y.table THEN <<"table">> ELSE <<>>) \o (IF x.count # y.count THEN <<"count">> ELSE <<>>)
                      \o (IF \E i \in ids : i \in DOMAIN x.rs /\ x.rs[i] # y.rs[i] THEN <<"rs">> ELSE <<>>)
                      \o (IF \E i \in DOMAIN y.nclose : i \in DOMAIN x.nclose /\ x.nclose[i] # y.nclose[i] THEN <<"nclose">> ELSE <<>>)
            IN /\ S' = SS /\ UNCHANGED <<cfg, Rq, Cn>>
               /\ viol' = viol \o tv \o (IF diffs = <<>> THEN <<>> ELSE <<V("NONCONF", "registry_state_differs", e.i, [after |-> e.a, fields |-> diffs, exp |-> x, act |-> y])>>)
                    \* C04 / C03 on the projection itself: the count never underflows, no session has two close events
                    \o (IF y.count < 0 \/ y.count > 1000000 THEN <<V("C04", "client_count_underflow", e.i, y.count)>> ELSE <<>>)
                    \o (IF \E i \in DOMAIN y.nclose : y.nclose[i] > 1 THEN <<V("C03", "second_close_event", e.i, y.nclose)>> ELSE <<>>)
       [] e.e = "reg.look" ->
            /\ S' = SS /\ UNCHANGED <<cfg, Rq, Cn>>
            /\ viol' = viol \o tv \o (IF e.found # e.exp THEN <<V("NONCONF", "registry_lookup_differs", e.i, [step |-> e.step, found |-> e.found, exp |-> e.exp, status |-> e.status])>> ELSE <<>>)
       [] e.e = "finish" ->
            LET ivs == SelectSeq(e.left, LAMBDA g : (g = "interval"))
                oth == SelectSeq(e.left, LAMBDA g : ~(g = "interval"))
                co == grid \/ \E x \in DOMAIN SS : SS[x].coincide
            IN /\ S' = SS
               /\ viol' = viol \o tv
                    \o (IF ivs # <<>> THEN <<V("C19", "interval_goroutine_left_behind", "", [n |-> Len(ivs), onCheckGrid |-> co])>> ELSE <<>>)
                    \o (IF oth # <<>> THEN <<V("C09", "goroutine_left_behind", "", oth)>> ELSE <<>>)
                    \* every session closed, every legitimate timeout run out, and a timer of the library still fires
                    \o (IF "timersFiring" \in DOMAIN e /\ e.timersFiring > 0
                        THEN <<V("C19", "timer_left_armed", "", [fires |-> e.timersFiring, onCheckGrid |-> co])>> ELSE <<>>)
               /\ UNCHANGED <<cfg, Rq, Cn>>
       [] e.e = "bubble.panic" /\ e.leak -> UNCHANGED <<cfg, S, Rq, Cn, viol>>     \* reported by the finish event (goroutines left)
       [] e.e \in {"handler.panic", "bubble.panic", "wedged", "process.died"} ->
            \* a wedge right after a hostile input is that input's doing (C09), otherwise it is a listener/lock deadlock (C18)
            /\ viol' = Append(viol, V(IF e.e = "wedged" /\ lastH = "" THEN "C18" ELSE "C09", e.e, "",
                                      [msg |-> IF "msg" \in DOMAIN e THEN e.msg ELSE "", class |-> lastH]))
            /\ UNCHANGED <<cfg, S, Rq, Cn>>
       [] OTHER -> /\ S' = SS /\ viol' = viol \o tv /\ UNCHANGED <<cfg, Rq, Cn>>

Finish == /\ l = Len(Trace) + 1 /\ ~done /\ done' = TRUE
          /\ PrintT("VIOLS " \o ToJson(viol))
          /\ PrintT("LINES " \o ToString(Len(Trace)))
          /\ UNCHANGED <<l, scn, cfg, S, Rq, Cn, Pre, grid, lastH, viol>>

Next == Step \/ Finish
Spec == Init /\ [][Next]_vars
=============================================================================
