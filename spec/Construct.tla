----------------------------- MODULE Construct -----------------------------
(* The constructor window of ONE session of zishang520/engine.io on a stream  *)
(* transport (WebSocket / WebTransport) or on polling: the steps of the       *)
(* handshaking goroutine through engine/socket.go Construct / onOpen and      *)
(* engine/base-server.go Handshake, interleaved with what can reach the       *)
(* session from OTHER goroutines meanwhile - the transport's reader goroutine *)
(* runs from the transport's construction on, so the peer's packets and the   *)
(* failure of its connection arrive at any of these points:                   *)
(*                                                                            *)
(*   pc            code                                   harness hold point   *)
(*   attached      transport constructed (reader running),log:readyState      *)
(*                 setTransport: listeners attached,      updated .. (in onOpen)*)
(*                 state "opening"                                            *)
(*   open          state "open" (test and set)            log:sending packet  *)
(*   flushing      open packet buffered, flush took it    S.flush             *)
(*   handed        .. handed to the transport (written)   S.drain             *)
(*   constructed   emit "open"; heartbeat timers armed;   handshake.constructed*)
(*                 NewSocket returned                                         *)
(*   stored        table entry + count                    handshake.stored    *)
(*   listening     registry's close listener registered   handshake.listening *)
(*   done          looked at the state again: unregister, or connection event *)
(*                                                                            *)
(* Deviations (constant): the code as it was before two fix: commits          *)
(*   "OpenStoresBlindly"  onOpen stores "open" whatever the state is: a       *)
(*                        session closed meanwhile is open again, armed,      *)
(*                        handed to the application, closed a second time by  *)
(*                        its own heartbeat                                   *)
(*   "RefreshUnset"       a heartbeat packet refreshes a timer that onOpen    *)
(*                        has not created yet (nil pointer: the process dies) *)
(*   "NoRecheck"          Handshake does not look at the state again after    *)
(*                        registering the close listener (see Registry.tla)   *)
EXTENDS Integers, Sequences, FiniteSets, TLC, Json

CONSTANTS Kind,        \* "stream" | "polling"
          Rev,         \* 3 | 4
          MaxCli,      \* bound on client packets
          Deviations

VARIABLES pc,          \* the handshaking goroutine (see above)
          rs,          \* socket.readyState: opening | open | closed
          att,         \* the socket's listeners are attached to the transport
          trs,         \* transport: open | closed
          pit, ptt,    \* pingIntervalTimer / pingTimeoutTimer: unset | armed | idle (cancelled or spent)
          table, count,\* client table entry, clientsCount
          closeL,      \* the registry's close listener is registered
          conn,        \* connection events; connTrs: the transport's state at that moment
          connTrs,
          nclose,      \* close events emitted by the socket
          reopened,    \* the state went from closed to something else
          crashed,     \* a nil timer was dereferenced
          ncli,        \* client packets so far
          hist

vars == <<pc, rs, att, trs, pit, ptt, table, count, closeL, conn, connTrs, nclose, reopened, crashed, ncli, hist>>
view == <<pc, rs, att, trs, pit, ptt, table, count, closeL, conn, connTrs, nclose, reopened, crashed, ncli>>
Dev(d) == d \in Deviations
\* the last action only (every state of the dumped graph carries the action that produced it); the whole history when asked for
\* ("fullhist": the counterexamples of the deviations, which are replayed into the real code)
H(a) == hist' = IF "fullhist" \in Deviations THEN Append(hist, a) ELSE <<a>>

Init == /\ pc = "attached" /\ rs = "opening" /\ att = TRUE /\ trs = "open" /\ pit = "unset" /\ ptt = "unset"
        /\ table = FALSE /\ count = 0 /\ closeL = FALSE /\ conn = 0 /\ connTrs = "" /\ nclose = 0
        /\ reopened = FALSE /\ crashed = FALSE /\ ncli = 0 /\ hist = <<>>

Idle(t) == IF t = "unset" THEN "unset" ELSE "idle"        \* utils.ClearTimeout is nil-safe

\* socket.OnClose(reason): Swap("closed"), clear timers, clearTransport, emit "close" (the registry's listener, if registered)
OnCloseVars ==
    IF rs = "closed" THEN UNCHANGED <<rs, att, pit, ptt, nclose, table, count>>
    ELSE /\ rs' = "closed" /\ att' = FALSE /\ pit' = Idle(pit) /\ ptt' = Idle(ptt) /\ nclose' = nclose + 1
         /\ IF closeL /\ table THEN table' = FALSE /\ count' = count - 1 ELSE UNCHANGED <<table, count>>

(* ---- the handshaking goroutine -------------------------------------------- *)
\* onOpen, first statement: opening -> open in one step; a session that closed meanwhile stays closed and onOpen returns
Open == /\ pc = "attached"
        /\ IF Dev("OpenStoresBlindly")
           THEN /\ rs' = "open" /\ reopened' = (reopened \/ rs = "closed") /\ pc' = "open"
                /\ att' = att       \* (the listeners were detached by clearTransport: nothing reaches this session any more)
           ELSE IF rs = "opening" THEN rs' = "open" /\ pc' = "open" /\ UNCHANGED <<reopened, att>>
           ELSE pc' = "constructed" /\ UNCHANGED <<rs, reopened, att>>
        /\ UNCHANGED <<trs, pit, ptt, table, count, closeL, conn, connTrs, nclose, crashed, ncli>> /\ H([a |-> "open"])
\* sendPacket(open) .. flush takes it (the "flush" listeners run)
Flush == /\ pc = "open" /\ pc' = "flushing"
         /\ UNCHANGED <<rs, att, trs, pit, ptt, table, count, closeL, conn, connTrs, nclose, reopened, crashed, ncli>> /\ H([a |-> "flush"])
\* .. hands it to the transport (the "drain" listeners run)
\* (a write to a connection that has failed is reported by the transport as an error: whoever listens closes the session)
Hand == /\ pc = "flushing" /\ pc' = "handed"
        /\ IF trs = "closed" /\ att THEN OnCloseVars ELSE UNCHANGED <<rs, att, pit, ptt, nclose, table, count>>
        /\ UNCHANGED <<trs, closeL, conn, connTrs, reopened, crashed, ncli>> /\ H([a |-> "hand"])
\* emit "open"; revision 4: schedulePing, revision 3: resetPingTimeout - whatever the state is by now
Arm == /\ pc = "handed" /\ pc' = "constructed"
       /\ IF Rev = 4 THEN pit' = "armed" /\ ptt' = ptt ELSE ptt' = "armed" /\ pit' = pit
       /\ UNCHANGED <<rs, att, trs, table, count, closeL, conn, connTrs, nclose, reopened, crashed, ncli>> /\ H([a |-> "arm"])
Store == /\ pc = "constructed" /\ pc' = "stored" /\ table' = TRUE /\ count' = count + 1
         /\ UNCHANGED <<rs, att, trs, pit, ptt, closeL, conn, connTrs, nclose, reopened, crashed, ncli>> /\ H([a |-> "store"])
Listen == /\ pc = "stored" /\ pc' = "listening" /\ closeL' = TRUE
          /\ UNCHANGED <<rs, att, trs, pit, ptt, table, count, conn, connTrs, nclose, reopened, crashed, ncli>> /\ H([a |-> "listen"])
Recheck == /\ pc = "listening" /\ pc' = "done"
           /\ IF rs = "closed" /\ ~Dev("NoRecheck")
              THEN /\ (IF table THEN table' = FALSE /\ count' = count - 1 ELSE UNCHANGED <<table, count>>)
                   /\ UNCHANGED <<conn, connTrs>>
              ELSE conn' = conn + 1 /\ connTrs' = trs /\ UNCHANGED <<table, count>>
           /\ UNCHANGED <<rs, att, trs, pit, ptt, closeL, nclose, reopened, crashed, ncli>> /\ H([a |-> "recheck"])

(* ---- other goroutines -------------------------------------------------------- *)
\* a polling client knows its sid only from the open packet, and its requests find the session only in the table
Reachable == IF Kind = "stream" THEN TRUE ELSE pc \in {"stored", "listening", "done"}
\* the peer's connection fails or closes: the transport reports it to whoever listens
Fault == /\ trs = "open" /\ Reachable /\ trs' = "closed"
         /\ IF att THEN OnCloseVars ELSE UNCHANGED <<rs, att, pit, ptt, nclose, table, count>>
         /\ UNCHANGED <<pc, closeL, conn, connTrs, reopened, crashed, ncli>> /\ H([a |-> "fault"])
\* a heartbeat packet in the session's direction (revision 4: pong, revision 3: ping)
Heartbeat ==
    /\ trs = "open" /\ Reachable /\ ncli < MaxCli /\ ncli' = ncli + 1
    /\ IF ~att \/ rs # "open" THEN UNCHANGED <<pit, ptt, crashed>>           \* nobody listens / "packet received with closed socket"
       ELSE IF Rev = 4
       THEN /\ ptt' = Idle(ptt)                                              \* ClearTimeout(pingTimeoutTimer)
            /\ IF pit = "unset" THEN crashed' = (crashed \/ Dev("RefreshUnset")) /\ pit' = pit
               ELSE pit' = "armed" /\ crashed' = crashed                     \* pingIntervalTimer.Refresh()
       ELSE /\ pit' = pit
            /\ IF ptt = "unset" THEN crashed' = (crashed \/ Dev("RefreshUnset")) /\ ptt' = ptt
               ELSE ptt' = "armed" /\ crashed' = crashed                     \* pingTimeoutTimer.Refresh()
    /\ UNCHANGED <<pc, rs, att, trs, table, count, closeL, conn, connTrs, nclose, reopened>> /\ H([a |-> "heartbeat"])
\* a heartbeat packet in the wrong direction: transport error
WrongDir ==
    /\ trs = "open" /\ Reachable /\ ncli < MaxCli /\ ncli' = ncli + 1
    /\ IF att /\ rs = "open" THEN OnCloseVars /\ trs' = "closed" ELSE UNCHANGED <<rs, att, pit, ptt, nclose, table, count, trs>>
    /\ UNCHANGED <<pc, closeL, conn, connTrs, reopened, crashed>> /\ H([a |-> "wrongdir"])
\* the heartbeat of a session nobody answers: the ping timer fires (arms the deadline), the deadline fires (closes an open session)
PingFire == /\ pit = "armed" /\ pit' = "idle" /\ ptt' = "armed"
            /\ UNCHANGED <<pc, rs, att, trs, table, count, closeL, conn, connTrs, nclose, reopened, crashed, ncli>> /\ H([a |-> "pingfire"])
Deadline == /\ ptt = "armed"
            /\ IF rs = "closed" THEN ptt' = "idle" /\ UNCHANGED <<rs, att, pit, nclose, table, count>>
               ELSE OnCloseVars
            /\ UNCHANGED <<pc, trs, closeL, conn, connTrs, reopened, crashed, ncli>> /\ H([a |-> "deadline"])

Next == Open \/ Flush \/ Hand \/ Arm \/ Store \/ Listen \/ Recheck
        \/ Fault \/ Heartbeat \/ WrongDir \/ PingFire \/ Deadline
Spec == Init /\ [][Next]_vars

----------------------------------------------------------------------------
TypeOK == /\ pc \in {"attached", "open", "flushing", "handed", "constructed", "stored", "listening", "done"}
          /\ rs \in {"opening", "open", "closed"} /\ trs \in {"open", "closed"}
          /\ pit \in {"unset", "armed", "idle"} /\ ptt \in {"unset", "armed", "idle"}
\* C09: no client input makes the process panic
C09_NoCrash == ~crashed
\* C03: the state only moves forward; one close event; the application is handed a session that is open - not one whose
\* transport had gone before (the close that followed it has been and gone)
C03_Forward == ~reopened
C03_ForwardStep == [][rs = "closed" => rs' = "closed"]_vars
C03_OneClose == nclose <= 1
C03_HandedLive == conn > 0 => (connTrs = "open" \/ nclose = 0)
C06_OneConnection == conn <= 1
\* C04: once the handshake is through and nothing is in progress, table and count are the live session
C04_Final == pc = "done" => ((table <=> rs # "closed") /\ count = (IF table THEN 1 ELSE 0))
C04_NoUnderflow == count >= 0
\* C07 / C19: no heartbeat timer stays armed on a closed session for ever (every armed timer fires once and finds it closed) -
\* stated as: a timer is never armed for a session that closed before its constructor armed it, once the handshake is through
\* and the timers have run out
Quiet == pc = "done" /\ pit # "armed" /\ ptt # "armed"

=============================================================================
