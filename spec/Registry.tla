------------------------------ MODULE Registry ------------------------------
(* The server side of several sessions at once: the handshake of a session    *)
(* (engine/base-server.go Handshake), the client table and the client count,  *)
(* the close of a session as far as the table is concerned (socket.OnClose:   *)
(* state swap, then the "close" listeners, the first of which unregisters),   *)
(* requests that name a session id (Verify, then HandleRequest: two loads),   *)
(* and Server.Close (a Range over the table closing what it meets).           *)
(*                                                                            *)
(* EioSession.tla is ONE session in depth; this module is the breadth: every  *)
(* interleaving of the handshaking goroutines of a few sessions with close    *)
(* causes, lookups and a shutdown.  Step boundaries are the yield points of   *)
(* the code (each a gate of the harness):                                     *)
(*                                                                            *)
(*   HsBuild   NewSocket: the session is open, its transport live             *)
(*               | handshake.constructed                                      *)
(*   HsStore   clients.Store; clientsCount.Add(1)                             *)
(*               | handshake.stored                                           *)
(*   HsListen  socket.Once("close", unregister)                               *)
(*               | handshake.listening                                        *)
(*   HsFinish  closed meanwhile ? unregister : Emit("connection")             *)
(*   CloseSwap readyState.Swap("closed")     | socket.onclose.tested          *)
(*   CloseEmit Emit("close"): the listeners registered at that moment         *)
(*                                                                            *)
(* Deviations (behaviours the code had, or a regression would bring back):    *)
(*   "NoRecheck"      Handshake does not look at the state again after        *)
(*                    registering the listener (a session that closed in the  *)
(*                    window stays in the table for ever)                     *)
(*   "BlindUnreg"     unregister decrements the count without having removed  *)
(*                    anything (runs twice: recheck and listener)             *)
(*   "CloseRace"      two close causes both get past the state test           *)
(*   "RangeSkipsClosing" Server.Close leaves sessions alone that are closing  *)
(*                    gracefully                                              *)
EXTENDS Integers, FiniteSets, Sequences, TLC, Json

CONSTANTS Sess,          \* session identities, e.g. {"a", "b"}
          Features,      \* subset of {"srvclose", "lookup", "graceful", "fine", "lastonly"}
          Deviations

VARIABLES hs,      \* hs[i]: progress of the handshaking goroutine: none | built | stored | listening | done
          rs,      \* rs[i]: socket.readyState: none | open | closing | closed
          cl,      \* cl[i]: reasons of OnClose calls of i that have swapped the state and not yet emitted "close"
          lst,     \* lst[i]: the unregister listener is registered (Once: gone when it has run)
          table,   \* the client table (set of ids)
          count,   \* clientsCount
          ann,     \* ann[i]: no | open | closed: was the session announced ("connection"), and in which state
          sc,      \* Server.Close: [phase: idle | ranging | done, seen: ids visited, snap: the table when it began]
          lk,      \* lk[i]: a request naming i between its two loads: none | verified
          ob,      \* observations: [nclose: [Sess -> Nat], bad: lookups answered wrongly at a quiet moment]
          hist

vars == <<hs, rs, cl, lst, table, count, ann, sc, lk, ob, hist>>
view == <<hs, rs, cl, lst, table, count, ann, sc, lk, ob>>
Dev(d) == d \in Deviations
Fine == "fine" \in Features
H(a) == hist' = IF "lastonly" \in Features THEN <<a>> ELSE Append(hist, a)

Init ==
    /\ hs = [i \in Sess |-> "none"] /\ rs = [i \in Sess |-> "none"] /\ cl = [i \in Sess |-> {}]
    /\ lst = [i \in Sess |-> FALSE] /\ table = {} /\ count = 0 /\ ann = [i \in Sess |-> "no"]
    /\ sc = [phase |-> "idle", seen |-> {}, snap |-> {}]
    /\ lk = [i \in Sess |-> "none"]
    /\ ob = [nclose |-> [i \in Sess |-> 0], bad |-> 0]
    /\ hist = <<>>

----------------------------------------------------------------------------
\* unregister: LoadAndDelete, and the count only when something was removed
Unreg(i, tb, ct) == IF i \in tb THEN [t |-> tb \ {i}, c |-> ct - 1]
                    ELSE [t |-> tb, c |-> IF Dev("BlindUnreg") THEN ct - 1 ELSE ct]

\* ---- the handshaking goroutine of session i
HsBuild(i) ==
    /\ hs[i] = "none"
    /\ hs' = [hs EXCEPT ![i] = "built"] /\ rs' = [rs EXCEPT ![i] = "open"]
    /\ UNCHANGED <<cl, lst, table, count, ann, sc, lk, ob>>
    /\ H([a |-> "hs.build", i |-> i])

\* what follows the yield point handshake.constructed; with the feature "fine" each step is on its own
HsStoreF(i, h, tb, ct) == [h |-> "stored", t |-> tb \cup {i}, c |-> ct + 1]
HsFinishF(i, r, tb, ct, l, a) ==
    \* closed meanwhile (its close event found no listener): unregister now, no connection event
    IF r = "closed" /\ ~Dev("NoRecheck")
    THEN LET u == Unreg(i, tb, ct) IN [t |-> u.t, c |-> u.c, a |-> a]
    ELSE [t |-> tb, c |-> ct, a |-> IF r = "closed" THEN "closed" ELSE "open"]

HsStore(i) ==
    /\ hs[i] = "built"
    /\ IF Fine
       THEN /\ hs' = [hs EXCEPT ![i] = "stored"] /\ table' = table \cup {i} /\ count' = count + 1
            /\ UNCHANGED <<lst, ann>>
       ELSE \* Store, Add, Once("close"), recheck, connection: no yield point in between without the fine hooks
            LET f == HsFinishF(i, rs[i], table \cup {i}, count + 1, TRUE, ann[i]) IN
            /\ hs' = [hs EXCEPT ![i] = "done"] /\ table' = f.t /\ count' = f.c /\ ann' = [ann EXCEPT ![i] = f.a]
            /\ lst' = [lst EXCEPT ![i] = TRUE]
    /\ UNCHANGED <<rs, cl, sc, lk, ob>>
    /\ H([a |-> "hs.store", i |-> i])

HsListen(i) ==
    /\ Fine /\ hs[i] = "stored"
    /\ hs' = [hs EXCEPT ![i] = "listening"] /\ lst' = [lst EXCEPT ![i] = TRUE]
    /\ UNCHANGED <<rs, cl, table, count, ann, sc, lk, ob>>
    /\ H([a |-> "hs.listen", i |-> i])

HsFinish(i) ==
    /\ Fine /\ hs[i] = "listening"
    /\ LET f == HsFinishF(i, rs[i], table, count, lst[i], ann[i]) IN
       /\ table' = f.t /\ count' = f.c /\ ann' = [ann EXCEPT ![i] = f.a]
    /\ hs' = [hs EXCEPT ![i] = "done"]
    /\ UNCHANGED <<rs, cl, lst, sc, lk, ob>>
    /\ H([a |-> "hs.finish", i |-> i])

\* ---- socket.OnClose of session i
\* first step: the state is swapped to closed by exactly one caller (or, before fix aee54c8, tested only)
Swap(i, reason, r, c) ==
    IF r[i] \in {"open", "closing"} \/ (Dev("CloseRace") /\ r[i] = "closed" /\ c[i] # {} /\ reason \notin c[i])
    THEN [r |-> [r EXCEPT ![i] = "closed"], c |-> [c EXCEPT ![i] = @ \cup {reason}]]
    ELSE [r |-> r, c |-> c]

\* (with the deviation a second cause gets past the test while the first close has not finished)
CanClose(i) == rs[i] \in {"open", "closing"} \/ (Dev("CloseRace") /\ rs[i] = "closed" /\ cl[i] # {})
\* the peer closes its connection / a transport fault: possible as soon as the transport is live
PeerClose(i) ==
    /\ CanClose(i) /\ "transport close" \notin cl[i]
    /\ LET w == Swap(i, "transport close", rs, cl) IN rs' = w.r /\ cl' = w.c
    /\ UNCHANGED <<hs, lst, table, count, ann, sc, lk, ob>>
    /\ H([a |-> "peerclose", i |-> i])

\* the application closes a session it has been handed: Close(true), or Close(false) on an idle polling session
\* (the close packet waits for the next poll: the session stays registered, "closing")
AppClose(i, hard) ==
    /\ ann[i] # "no" /\ CanClose(i) /\ "forced close" \notin cl[i]
    /\ IF hard
       THEN LET w == Swap(i, "forced close", rs, cl) IN rs' = w.r /\ cl' = w.c
       ELSE /\ "graceful" \in Features /\ rs[i] = "open"
            /\ rs' = [rs EXCEPT ![i] = "closing"] /\ UNCHANGED cl
    /\ UNCHANGED <<hs, lst, table, count, ann, sc, lk, ob>>
    /\ H([a |-> "appclose", i |-> i, hard |-> hard])

\* the client of a closing session fetches its close packet
FetchClose(i) ==
    /\ rs[i] = "closing" /\ "forced close" \notin cl[i]
    /\ LET w == Swap(i, "forced close", rs, cl) IN rs' = w.r /\ cl' = w.c
    /\ UNCHANGED <<hs, lst, table, count, ann, sc, lk, ob>>
    /\ H([a |-> "fetchclose", i |-> i])

\* second step: Emit("close") runs the listeners registered now; the unregister listener is a Once listener
CloseEmit(i, reason) ==
    /\ reason \in cl[i]
    /\ cl' = [cl EXCEPT ![i] = @ \ {reason}]
    /\ IF lst[i]
       THEN LET u == Unreg(i, table, count) IN table' = u.t /\ count' = u.c /\ lst' = [lst EXCEPT ![i] = FALSE]
       ELSE UNCHANGED <<table, count, lst>>
    /\ ob' = [ob EXCEPT !.nclose[i] = @ + 1]
    /\ UNCHANGED <<hs, rs, ann, sc, lk>>
    /\ H([a |-> "close.emit", i |-> i, reason |-> reason])

\* ---- Server.Close: Range over the table, Close(true) on what it meets
SrvBegin ==
    /\ "srvclose" \in Features /\ sc.phase = "idle"
    /\ sc' = [phase |-> "ranging", seen |-> {}, snap |-> table]
    /\ UNCHANGED <<hs, rs, cl, lst, table, count, ann, lk, ob>>
    /\ H([a |-> "srv.begin"])
\* (the goroutine runs the whole of OnClose of the session it closes before it visits the next one)
SrvVisit(i) ==
    /\ sc.phase = "ranging" /\ i \in table \ sc.seen /\ \A j \in sc.seen : "server close" \notin cl[j]
    /\ sc' = [sc EXCEPT !.seen = @ \cup {i}]
    /\ LET skip == Dev("RangeSkipsClosing") /\ rs[i] = "closing"
           w == IF skip THEN [r |-> rs, c |-> cl] ELSE Swap(i, "server close", rs, cl)
       IN rs' = w.r /\ cl' = w.c
    /\ UNCHANGED <<hs, lst, table, count, ann, lk, ob>>
    /\ H([a |-> "srv.visit", i |-> i])
\* Range ends when everything that was in the table when it began has been visited or has gone
SrvEnd ==
    /\ sc.phase = "ranging" /\ (sc.snap \cap table) \subseteq sc.seen /\ \A j \in sc.seen : "server close" \notin cl[j]
    /\ sc' = [sc EXCEPT !.phase = "done"]
    /\ UNCHANGED <<hs, rs, cl, lst, table, count, ann, lk, ob>>
    /\ H([a |-> "srv.end"])

\* the whole shutdown as ONE step (feature "srvatomic": the instance whose behaviours are replayed into the real server -
\* the order in which Range meets the sessions is the map's business and cannot be steered)
SrvAll ==
    /\ "srvatomic" \in Features /\ sc.phase = "idle"
    /\ LET victims == {i \in table : rs[i] \in {"open", "closing"} /\ ~(Dev("RangeSkipsClosing") /\ rs[i] = "closing")}
           gone == {i \in victims : lst[i]}
       IN /\ rs' = [i \in Sess |-> IF i \in victims THEN "closed" ELSE rs[i]]
          /\ table' = table \ gone /\ count' = count - Cardinality(gone)
          /\ lst' = [i \in Sess |-> IF i \in victims THEN FALSE ELSE lst[i]]
          /\ ob' = [ob EXCEPT !.nclose = [i \in Sess |-> IF i \in victims THEN @[i] + 1 ELSE @[i]]]
          /\ sc' = [phase |-> "done", seen |-> victims, snap |-> table]
    /\ UNCHANGED <<hs, cl, ann, lk>>
    /\ H([a |-> "srv.all"])

\* ---- a request naming session i: Verify loads the table, HandleRequest loads it again
Quiet == /\ \A i \in Sess : hs[i] \in {"none", "done"} /\ cl[i] = {}
         /\ sc.phase # "ranging"
Live == {i \in Sess : rs[i] \in {"open", "closing"}}
LookVerify(i) ==
    /\ "lookup" \in Features /\ lk[i] = "none" /\ hs[i] # "none"
    /\ IF i \in table THEN lk' = [lk EXCEPT ![i] = "verified"] /\ UNCHANGED ob
       ELSE \* answered "Session ID unknown": wrong when the session is live and nothing is in progress
            /\ UNCHANGED lk /\ ob' = [ob EXCEPT !.bad = IF Quiet /\ i \in Live THEN @ + 1 ELSE @]
    /\ UNCHANGED <<hs, rs, cl, lst, table, count, ann, sc>>
    /\ H([a |-> "look.verify", i |-> i, found |-> i \in table])
LookHandle(i) ==
    /\ lk[i] = "verified"
    /\ lk' = [lk EXCEPT ![i] = "none"]
    \* found: handed to the session's transport; wrong when the session has closed and nothing is in progress
    /\ ob' = [ob EXCEPT !.bad = IF Quiet /\ ((i \in table) # (i \in Live)) THEN @ + 1 ELSE @]
    /\ UNCHANGED <<hs, rs, cl, lst, table, count, ann, sc>>
    /\ H([a |-> "look.handle", i |-> i, found |-> i \in table])

Next == \/ \E i \in Sess : HsBuild(i) \/ HsStore(i) \/ HsListen(i) \/ HsFinish(i)
        \/ \E i \in Sess : PeerClose(i) \/ FetchClose(i) \/ (\E h \in BOOLEAN : AppClose(i, h)) \/ (\E r \in cl[i] : CloseEmit(i, r))
        \/ SrvBegin \/ (\E i \in Sess : SrvVisit(i)) \/ SrvEnd \/ SrvAll
        \/ \E i \in Sess : LookVerify(i) \/ LookHandle(i)
Spec == Init /\ [][Next]_vars

----------------------------------------------------------------------------
TypeOK == /\ \A i \in Sess : /\ hs[i] \in {"none", "built", "stored", "listening", "done"}
                             /\ rs[i] \in {"none", "open", "closing", "closed"} /\ ann[i] \in {"no", "open", "closed"}
          /\ table \subseteq Sess /\ sc.phase \in {"idle", "ranging", "done"}
\* C04: whenever the server is quiescent, table, count and the set of live sessions coincide
C04_Quiescent == Quiet => (table = Live /\ count = Cardinality(table))
C04_NoUnderflow == count >= 0
\* C04: at a quiet moment a request naming a live session finds it, one naming a closed session is told "unknown"
C04_Lookups == ob.bad = 0
\* C03: one close event per session; the application is handed a session that is open
C03_OneClose == \A i \in Sess : ob.nclose[i] <= 1
C03_HandedOpen == \A i \in Sess : ann[i] # "closed"
\* C03: every session that stopped being open gets its close event (it is pending or has been emitted)
C03_CloseEmitted == \A i \in Sess : rs[i] = "closed" => (cl[i] # {} \/ ob.nclose[i] >= 1)
\* C12: when Server.Close has returned and nothing is in progress, none of the sessions that were registered when it began is left
C12_ShutdownEmpties == (sc.phase = "done" /\ Quiet) => (sc.snap \cap table = {} /\ \A i \in sc.snap : rs[i] = "closed")

Emit == (Quiet /\ \A i \in Sess : hs[i] = "done") => PrintT("BEHAVIOUR " \o ToJson(hist))
=============================================================================
