-------------------------------- MODULE Beat3 --------------------------------
(* Timed model of the REVISION-3 heartbeat of engine/socket.go (C07): the     *)
(* client pings, the server answers every ping with a pong and refreshes ONE  *)
(* timer - the deadline, ping-interval plus ping-timeout after the last ping  *)
(* (or after opening). A ping in the wrong direction for the revision (a      *)
(* pong from the client) is a transport error. Time advances only when no     *)
(* timer is due. The tick of the deadline timer and a ping that arrives at    *)
(* the same instant race for the timer's mutex (utils/timer.go, generations): *)
(* either the tick is processed first (the session closes, the ping finds it  *)
(* closed) or the ping is (the deadline moves, the tick is stale).            *)
(*                                                                            *)
(* Deviations (constant):                                                     *)
(*   "DeadlinePT"   the deadline is armed with the ping-timeout alone         *)
(*   "NoRefresh"    a ping does not move the deadline                         *)
(*   "StaleTick"    a tick that fired before the refresh still closes the     *)
(*                  session (the timers as found, before fix d7f5c25; seeded  *)
(*                  change C07-8)                                             *)
EXTENDS Integers, Sequences, TLC, EioProps

CONSTANTS PI, PT, MaxNow, Gaps, Deviations      \* Gaps: the client pings so long after its last ping / after opening; 99 = never again
VARIABLES now, open, deadline, fired, nextPing, lastPing, closedAt, pongs, wrongAt, hist
vars == <<now, open, deadline, fired, nextPing, lastPing, closedAt, pongs, wrongAt, hist>>
view == <<now, open, deadline, fired, nextPing, lastPing, closedAt>>
Dev(d) == d \in Deviations
Span == IF Dev("DeadlinePT") THEN PT ELSE PI + PT

Init == /\ now = 0 /\ open = TRUE /\ deadline = Span /\ fired = FALSE /\ lastPing = 0 /\ closedAt = Off /\ pongs = 0 /\ wrongAt = Off
        /\ nextPing \in {IF g >= 99 THEN Off ELSE g : g \in Gaps} /\ hist = <<>>

\* the deadline's runtime timer expires: its goroutine has not reached the timer's mutex yet
Fire == /\ open /\ deadline = now /\ ~fired /\ fired' = TRUE
        /\ UNCHANGED <<now, open, deadline, nextPing, lastPing, closedAt, pongs, wrongAt>> /\ hist' = Append(hist, [a |-> "fire", t |-> now])
\* .. it gets the mutex and finds its generation current: OnClose("ping timeout")
Timeout == /\ open /\ fired /\ (deadline = now \/ Dev("StaleTick"))
           /\ open' = FALSE /\ closedAt' = now /\ fired' = FALSE /\ deadline' = Off /\ nextPing' = Off
           /\ UNCHANGED <<now, lastPing, pongs, wrongAt>> /\ hist' = Append(hist, [a |-> "timeout", t |-> now])
\* .. or finds that a refresh has started a new generation since it fired: nothing happens
Stale == /\ fired /\ deadline # now /\ ~Dev("StaleTick") /\ fired' = FALSE
         /\ UNCHANGED <<now, open, deadline, nextPing, lastPing, closedAt, pongs, wrongAt>> /\ hist' = Append(hist, [a |-> "stale", t |-> now])
\* the client's ping arrives: accepted by an open session - deadline refreshed, pong sent
Ping == /\ nextPing = now
        /\ \E g \in Gaps : nextPing' = IF g >= 99 THEN Off ELSE now + g
        /\ IF open THEN /\ deadline' = (IF Dev("NoRefresh") THEN deadline ELSE now + Span) /\ lastPing' = now /\ pongs' = pongs + 1
                   ELSE UNCHANGED <<deadline, lastPing, pongs>>
        /\ UNCHANGED <<now, open, fired, closedAt, wrongAt>> /\ hist' = Append(hist, [a |-> "ping", t |-> now, acc |-> open])
Due == (open /\ deadline = now /\ ~fired) \/ fired \/ nextPing = now
Tick == /\ now < MaxNow /\ ~Due /\ now' = now + 1
        /\ UNCHANGED <<open, deadline, fired, nextPing, lastPing, closedAt, pongs, wrongAt, hist>>
Next == Fire \/ Timeout \/ Stale \/ Ping \/ Tick
Spec == Init /\ [][Next]_vars

\* C07: the session closes exactly ping-interval plus ping-timeout after the last ping it accepted (or after opening), never
\* before, and is not open after that instant
R3_Exact == closedAt # Off => closedAt = lastPing + PI + PT
R3_NotLate == open => now <= lastPing + PI + PT
\* a ping that arrives strictly before the deadline is accepted (the session is still open then)
R3_AcceptedBefore == \A i \in 1..Len(hist) : (hist[i].a = "ping" /\ ~hist[i].acc) => closedAt # Off /\ closedAt <= hist[i].t
=============================================================================
