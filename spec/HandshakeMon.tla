---------------------------- MODULE HandshakeMon ----------------------------
EXTENDS Handshake
CONSTANT TraceFile
Trace == ndJsonDeserialize(TraceFile)
VARIABLES l, viol, n, done
mvars == <<l, viol, n, done, cell>>
MInit == l = 1 /\ viol = <<>> /\ n = 0 /\ done = FALSE /\ cell = 0
Step == LET e == Trace[l] IN
        /\ l <= Len(Trace) /\ l' = l + 1 /\ done' = FALSE /\ UNCHANGED cell
        /\ IF e.e = "hs.cell"
           THEN /\ n' = n + 1
                /\ viol' = IF ObsOK(e.cell, e.obs) THEN viol
                           ELSE Append(viol, [scn |-> e.scn, line |-> l, prop |-> "C06", clause |-> "handshake", cell |-> e.cell, obs |-> e.obs, ordinal |-> e.n,
                                              want |-> [admitted |-> Admitted(e.cell), upgrades |-> Upgrades(e.cell), rev |-> Rev(e.cell)]])
           ELSE IF e.e \in {"bubble.panic", "wedged", "process.died"}
           THEN viol' = Append(viol, [scn |-> "", line |-> l, prop |-> "C06", clause |-> e.e]) /\ UNCHANGED n
           ELSE UNCHANGED <<viol, n>>
Finish == /\ l = Len(Trace) + 1 /\ ~done /\ done' = TRUE
          /\ PrintT("VIOLS " \o ToJson(viol)) /\ PrintT("LINES " \o ToString(Len(Trace)))
          /\ PrintT("NONCONF " \o ToJson(<<[cells |-> n]>>))
          /\ UNCHANGED <<l, viol, n, cell>>
MSpec == MInit /\ [][Step \/ Finish]_mvars
=============================================================================
