------------------------------ MODULE EioProps ------------------------------
(* The session-level properties of engine.io stated ONCE, over observable     *)
(* quantities only (instants in microseconds of virtual time, event kinds,    *)
(* reasons).  Used by the trace monitor EioMon.tla on recorded executions and *)
(* by the implementation-shaped model EioSession.tla as invariants.           *)
EXTENDS Integers, Sequences, FiniteSets

Off == -1
Min2(a, b) == IF a < b THEN a ELSE b
Max2(a, b) == IF a > b THEN a ELSE b

\* C03: the ready state only moves forward
Rank(rs) == CASE rs = "opening" -> 1 [] rs = "open" -> 2 [] rs = "closing" -> 3 [] rs = "closed" -> 4 [] OTHER -> 0
DocumentedReasons == {"transport close", "transport error", "ping timeout", "parse error", "forced close", "server close"}
\* C03: the kind of cause that must have occurred before a close with the given reason
\*   peer  = the client closed its transport (close packet, connection closed or dropped)
\*   error = a transport-level fault (overlapping/aborted request, wrong-direction heartbeat, invalid content, write error, oversized frame)
\*   parse = the client submitted an undecodable packet
\*   app   = the application called Close on the session or closed the server
ReasonCause(r) == CASE r = "transport close" -> "peer" [] r = "transport error" -> "error" [] r = "parse error" -> "parse"
                    [] r = "forced close" -> "app" [] r = "server close" -> "app" [] OTHER -> "none"

\* C07 (revision 4): a ping is legal only at the instant it is due; it is missed when time passes that instant
PingLegal(due, t) == due # Off /\ t = due
PingMissed(due, t) == due # Off /\ t > due
\* C07: a ping-timeout close is legal only exactly at the deadline; the session may not be open after it
TimeoutLegal(deadline, t) == deadline # Off /\ t = deadline
TimeoutMissed(deadline, t) == deadline # Off /\ t > deadline

\* C12: after a graceful Close the session closes within the fixed close timeout (30 s) or, with data still
\* buffered, by the next heartbeat deadline - whichever is later bounds it
CloseTimeout == 30000000
CloseOverdue(asked, deadline, cfg, t) ==
    asked # Off /\ t > asked + Max2(CloseTimeout, cfg.pi + cfg.pt)
=============================================================================
