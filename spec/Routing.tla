------------------------------ MODULE Routing ------------------------------
(* Decision table for routing and admission (C05), written from the README   *)
(* and the property's precedence list - NOT from Verify().  Every initial     *)
(* state of the spec is one cell; Decision(cell) is the set of admissible     *)
(* observable outcomes.  TLC enumerates the cells, the harness executes each  *)
(* on the real server, and RoutingMon checks observed \in Decision(cell).     *)
EXTENDS Integers, Sequences, FiniteSets, TLC, Json

\* ---------------------------------------------------------------- paths
\* a path = [segs: sequence of segments, slash: trailing slash]; "" = empty segment (doubled slash)
RECURSIVE CleanSegs(_, _)
CleanSegs(segs, acc) ==
    IF segs = <<>> THEN acc
    ELSE LET h == Head(segs) IN
         IF h = "" \/ h = "." THEN CleanSegs(Tail(segs), acc)
         ELSE IF h = ".." THEN CleanSegs(Tail(segs), IF acc = <<>> THEN acc ELSE SubSeq(acc, 1, Len(acc) - 1))
         ELSE CleanSegs(Tail(segs), Append(acc, h))
\* path.Clean keeps a trailing slash only if the original path ended in "/" (and the result is not the root)
Clean(p) == LET c == CleanSegs(p.segs, <<>>) IN [segs |-> c, slash |-> p.slash /\ c # <<>>]

\* the engine mount: "/engine.io/" by default, with or without attach options; addTrailingSlash=false removes the slash
Mount(attach) ==
    CASE attach \in {"none", "serveropts", "path-slash", "path-noslash"} -> [segs |-> <<"engine.io">>, slash |-> TRUE]
      [] attach = "custom"     -> [segs |-> <<"foo", "bar">>, slash |-> TRUE]
      [] attach = "notrailing" -> [segs |-> <<"engine.io">>, slash |-> FALSE]
\* a mount ending in "/" matches every path below it; one without matches exactly
IsPrefixSeq(a, b) == Len(a) <= Len(b) /\ SubSeq(b, 1, Len(a)) = a
Routed(attach, p) ==
    LET m == Mount(attach) c == Clean(p) IN
    IF m.slash THEN IsPrefixSeq(m.segs, c.segs) /\ (Len(c.segs) > Len(m.segs) \/ c.slash)
    ELSE c.segs = m.segs /\ ~c.slash

\* request path shapes, relative to the mount segments ms
PathOf(shape, ms) ==
    CASE shape = "exact"      -> [segs |-> ms, slash |-> TRUE]
      [] shape = "noslash"    -> [segs |-> ms, slash |-> FALSE]
      [] shape = "sub"        -> [segs |-> ms \o <<"x">>, slash |-> FALSE]
      [] shape = "subslash"   -> [segs |-> ms \o <<"x">>, slash |-> TRUE]
      [] shape = "dot"        -> [segs |-> ms \o <<".">>, slash |-> TRUE]
      [] shape = "enddot"     -> [segs |-> ms \o <<".">>, slash |-> FALSE]
      [] shape = "dotdot"     -> [segs |-> ms \o <<"x", "..">>, slash |-> TRUE]
      [] shape = "enddotdot"  -> [segs |-> ms \o <<"x", "..">>, slash |-> FALSE]
      [] shape = "up"         -> [segs |-> ms \o <<"..">>, slash |-> TRUE]
      [] shape = "dbl"        -> [segs |-> <<"">> \o ms \o <<"">>, slash |-> TRUE]
      [] shape = "case"       -> [segs |-> <<"Engine.IO">>, slash |-> TRUE]
      [] shape = "other"      -> [segs |-> <<"other">>, slash |-> TRUE]
      [] shape = "prefixonly" -> [segs |-> <<"engine.iox">>, slash |-> TRUE]

\* ---------------------------------------------------------------- admission
Codes == [c0 |-> [code |-> 0, message |-> "Transport unknown"],
          c1 |-> [code |-> 1, message |-> "Session ID unknown"],
          c2 |-> [code |-> 2, message |-> "Bad handshake method"],
          c3 |-> [code |-> 3, message |-> "Bad request"],
          c4 |-> [code |-> 4, message |-> "hook says no"],
          c5 |-> [code |-> 5, message |-> "Unsupported protocol version"]]

Reject(k, status) == [kind |-> "reject", status |-> status, code |-> Codes[k].code, message |-> Codes[k].message]
Admit == [kind |-> "admit", status |-> 200, code |-> -1, message |-> ""]

\* r = [method, transport, sid, eio, origin, upgrade, hook, mw]; cfg = [enabled (set of transports), eio3]
TransportOK(r, cfg) == r.transport \in {"polling", "websocket"} /\ r.transport \in cfg.enabled
\* the fixed precedence of checks; the first failing check decides
Verdict(r, cfg) ==
    IF r.mw = "fail" THEN Reject("c3", 400)
    ELSE IF ~TransportOK(r, cfg) THEN Reject("c0", 400)
    ELSE IF r.origin = "ctl" THEN Reject("c3", 400)
    ELSE IF r.sid \in {"unknown", "closed"} THEN Reject("c1", 400)
    ELSE IF r.sid = "known-other" /\ ~r.upgrade THEN Reject("c3", 400)
    \* ("closing": a registered polling session on which the application has called Close, the close packet waiting for the next poll -
    \*  it is known, and bound to polling, until it has closed)
    ELSE IF r.sid \in {"known-same", "known-other", "closing"} THEN Admit
    ELSE IF r.method # "GET" THEN Reject("c2", 400)
    ELSE IF r.transport = "websocket" /\ ~r.upgrade THEN Reject("c3", 400)
    ELSE IF r.hook = "deny" THEN Reject("c4", 403)
    ELSE IF r.eio # "4" /\ ~cfg.eio3 THEN Reject("c5", 400)
    ELSE Admit

\* cells the documents leave open: any outcome is admissible
Unspecified(r, cfg) ==
    \/ r.upgrade /\ "websocket" \notin cfg.enabled            \* an upgrade request while websocket is disabled (the code answers 501)
    \/ r.upgrade /\ r.method # "GET"                          \* not a well-formed websocket upgrade
    \/ r.upgrade /\ r.sid = "known-same"                      \* upgrading a session that already is on websocket
    \/ r.sid \in {"known-same", "known-other"} /\ r.method \notin {"GET", "POST"}
    \/ r.sid = "known-same" /\ r.transport = "websocket"      \* plain HTTP request naming a websocket session
    \/ r.upgrade /\ TransportOK(r, cfg) /\ r.transport # "websocket"   \* a websocket upgrade request that names the polling transport
    \/ r.upgrade /\ r.origin = "ctl"                          \* an HTTP/1.1 server never parses such an upgrade request (refused before the engine)
    \/ r.transport = "repeated"                               \* a repeated query parameter: which value counts is not documented
    \/ r.sid = "closing" /\ (r.transport # "polling" \/ r.upgrade \/ r.method \notin {"GET", "POST"})   \* only plain polling requests are studied for it

\* ---------------------------------------------------------------- cells
CONSTANTS Attach, Shapes, RouteMethods, Methods, Transports, Sids, Eios, Origins, Upgrades, Hooks, Mws, Enabled, Eio3s, Mode, Emit
VARIABLE cell
\* routing looks at the cleaned path only: the method (CONNECT included, which net/http does not canonicalise) plays no part
RouteCells == {[kind |-> "route", attach |-> a, shape |-> sh, method |-> m] : a \in Attach, sh \in Shapes, m \in RouteMethods}
AdmitCells == {[kind |-> "admit", method |-> m, transport |-> t, sid |-> s, eio |-> e, origin |-> o, upgrade |-> u, hook |-> h, mw |-> w,
                enabled |-> en, eio3 |-> e3] :
                 m \in Methods, t \in Transports, s \in Sids, e \in Eios, o \in Origins, u \in Upgrades, h \in Hooks, w \in Mws,
                 en \in Enabled, e3 \in Eio3s}
EnabledSet(en) == CASE en = "pw" -> {"polling", "websocket"} [] en = "p" -> {"polling"} [] en = "w" -> {"websocket"}
CfgOf(c) == [enabled |-> EnabledSet(c.enabled), eio3 |-> c.eio3]
\* WebTransport: the application's own HTTP/3 server hands an extended-CONNECT request to the engine (OnWebTransportSession);
\* the allow-request hook is asked before the session is accepted (an HTTP refusal), everything else is decided by the first
\* packet on the first stream: "0" opens a session, 0{"sid":..} attaches an upgrade candidate to that session
\*   first: "new" | "known" (an open polling session) | "unknown" | "closed"
WtCells == {[kind |-> "wtadmit", hook |-> h, first |-> f] : h \in {"none", "deny"}, f \in {"new", "known", "unknown", "closed"}}
Init == cell \in (CASE Mode = "route" -> RouteCells [] Mode = "wtadmit" -> WtCells [] OTHER -> AdmitCells)
Next == UNCHANGED cell
Spec == Init /\ [][Next]_cell

\* sanity of the table itself (model-checked): exactly one verdict, rejects carry a documented code, 403 only for the hook
TableOK == cell.kind = "admit" =>
             LET v == Verdict(cell, CfgOf(cell)) IN
             /\ v.kind \in {"admit", "reject"}
             /\ (v.kind = "reject" => v.code \in 0..5 /\ (v.status = 403 <=> v.code = 4))
             /\ (v.kind = "admit" => TransportOK(cell, CfgOf(cell)) /\ cell.origin = "ok" /\ cell.mw # "fail")
RouteOK == cell.kind = "route" =>
             LET ms == Mount(cell.attach).segs IN
             /\ Routed(cell.attach, PathOf("exact", ms)) = Mount(cell.attach).slash      \* the mount with its slash is routed iff the mount has one
             /\ ~Routed(cell.attach, PathOf("other", ms))
EmitCell == Emit => PrintT("CELL " \o ToJson(cell))

\* ---------------------------------------------------------------- checking an observation (used by RoutingMon)
\* o = what the harness observed for the cell
RouteObsOK(c, o) == LET ms == Mount(c.attach).segs IN o.engine = Routed(c.attach, PathOf(c.shape, ms)) /\ o.app = ~o.engine
WtObsOK(c, o) ==
    IF c.hook = "deny"
    THEN o.via = "http" /\ o.status = 403 /\ o.code = 4 /\ o.message = (IF "hooktext" \in DOMAIN o THEN o.hooktext ELSE Codes["c4"].message)
         /\ o.connErr = 1 /\ ~o.created /\ ~o.disturbed
    ELSE /\ o.connErr = 0 /\ ~o.disturbed
         /\ CASE c.first = "new" -> o.created /\ o.via = "open"
              [] c.first = "known" -> ~o.created /\ o.via = "open" /\ o.upgrading        \* a candidate of that session: only a candidate
              [] OTHER -> ~o.created /\ o.via = "closed"                                  \* nothing to attach to: the connection is closed
AdmitObsOK(c, o) ==
    LET cfg == CfgOf(c)
        v == Verdict(c, cfg)
    IN IF Unspecified(c, cfg) THEN TRUE
       ELSE IF v.kind = "reject"
       THEN /\ o.connErr = 1 /\ ~o.created /\ ~o.disturbed
            /\ IF c.upgrade /\ v.code = 5
               THEN o.via = "closeframe" /\ o.text = v.message             \* refused after the websocket was accepted
               \* (code 4 carries the hook's own error text, which the harness makes different for every cell and every refusal)
               ELSE o.via = "http" /\ o.status = v.status /\ o.code = v.code
                    /\ o.message = (IF v.code = 4 /\ "hooktext" \in DOMAIN o THEN o.hooktext ELSE v.message)
       ELSE /\ o.connErr = 0 /\ ~o.disturbed
            /\ o.created = (c.sid = "absent")
            /\ o.status \notin {400, 403}
            \* the poll a closing session was waiting for carries its close packet and ends it
            /\ (c.sid = "closing" /\ c.method = "GET" => o.status = 200 /\ o.closingEnded)
=============================================================================
