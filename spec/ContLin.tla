------------------------------ MODULE ContLin ------------------------------
(* Linearizability of recorded concurrent histories (C20): events inv / ret   *)
(* of operations on one Map, Slice or Set issued by 2-8 goroutines.  TLC      *)
(* searches for a linearization: between its inv and its ret every operation  *)
(* takes effect atomically on the reference state (silent action Lin) and the *)
(* recorded result must be the reference result.  Acceptance: the whole file  *)
(* is consumed (high-water mark of l kept in TLC register 1).                 *)
EXTENDS Containers, Json

CONSTANT TraceFile
Trace == ndJsonDeserialize(TraceFile)
ASSUME TLCSet(1, 0)

VARIABLES l, kind, obj, pend
vars == <<l, kind, obj, pend>>

Init == l = 1 /\ kind = "" /\ obj = <<>> /\ pend = {}

SeqToSet(s) == {s[k] : k \in 1..Len(s)}
Apply(o) == CASE kind = "map"   -> MapApply(obj, o)
              [] kind = "slice" -> SliceApply(obj, o)
              [] kind = "set"   -> SetApply(obj, o)

Ev(name) == l <= Len(Trace) /\ Trace[l].e = name /\ l' = l + 1

New == /\ Ev("lin.new") /\ pend = {}
       /\ kind' = Trace[l].obj
       /\ obj' = IF Trace[l].obj = "set" THEN SeqToSet(Trace[l].a) ELSE Trace[l].a
       /\ pend' = {}
Skip == /\ l <= Len(Trace) /\ Trace[l].e \in {"reset", "end", "lin.end"} /\ l' = l + 1
        /\ UNCHANGED <<kind, obj, pend>>
Inv == /\ Ev("inv")
       /\ pend' = pend \cup {[id |-> Trace[l].id, o |-> Trace[l].o, done |-> FALSE, res |-> [err |-> "", n |-> 0, xs |-> <<>>]]}
       /\ UNCHANGED <<kind, obj>>
Lin == \E p \in pend :
         /\ ~p.done
         /\ LET r == Apply(p.o) IN
            /\ obj' = r.st
            /\ pend' = (pend \ {p}) \cup {[p EXCEPT !.done = TRUE, !.res = r.res]}
         /\ UNCHANGED <<l, kind>>
Ret == /\ Ev("ret")
       /\ \E p \in pend : /\ p.id = Trace[l].id /\ p.done /\ p.res = Trace[l].res
                          /\ pend' = pend \ {p}
       /\ UNCHANGED <<kind, obj>>

Next == New \/ Skip \/ Inv \/ Lin \/ Ret
Spec == Init /\ [][Next]_vars

HighWater == TLCSet(1, IF l > TLCGet(1) THEN l ELSE TLCGet(1))
Report == PrintT("HIGHWATER " \o ToString(TLCGet(1)) \o " OF " \o ToString(Len(Trace) + 1))
=============================================================================
