---- MODULE Timer_TTrace_1790656993 ----
EXTENDS Sequences, TLCExt, Timer, Toolbox, Naturals, TLC, Timer_TEConstants

_expression ==
    LET Timer_TEExpression == INSTANCE Timer_TEExpression
    IN Timer_TEExpression!expression
----

_trace ==
    LET Timer_TETrace == INSTANCE Timer_TETrace
    IN Timer_TETrace!trace
----

_inv ==
    ~(
        TLCGet("level") = Len(_TETrace)
        /\
        stopAt = ((c1 :> -1 @@ c2 :> -1))
        /\
        bad = ({"run_after_cancel"})
        /\
        created = (TRUE)
        /\
        nTicked = (0)
        /\
        hist = (<<[a |-> "create", kind |-> "interval"], [a |-> "tick"], [a |-> "tick"], [a |-> "fire"], [a |-> "ticked"], [c |-> c1, a |-> "stopA", r |-> FALSE], [a |-> "rearm"]>>)
        /\
        pc = ((c1 :> "idle" @@ c2 :> "idle"))
        /\
        ops = (1)
        /\
        chanFull = (FALSE)
        /\
        due = (4)
        /\
        tainted = (TRUE)
        /\
        now = (2)
        /\
        armed = (4)
        /\
        cancelled = (TRUE)
        /\
        nSel = (1)
    )
----

_init ==
    /\ bad = _TETrace[1].bad
    /\ cancelled = _TETrace[1].cancelled
    /\ now = _TETrace[1].now
    /\ pc = _TETrace[1].pc
    /\ hist = _TETrace[1].hist
    /\ armed = _TETrace[1].armed
    /\ stopAt = _TETrace[1].stopAt
    /\ due = _TETrace[1].due
    /\ created = _TETrace[1].created
    /\ nSel = _TETrace[1].nSel
    /\ ops = _TETrace[1].ops
    /\ nTicked = _TETrace[1].nTicked
    /\ tainted = _TETrace[1].tainted
    /\ chanFull = _TETrace[1].chanFull
----

_next ==
    /\ \E i,j \in DOMAIN _TETrace:
        /\ \/ /\ j = i + 1
              /\ i = TLCGet("level")
        /\ bad  = _TETrace[i].bad
        /\ bad' = _TETrace[j].bad
        /\ cancelled  = _TETrace[i].cancelled
        /\ cancelled' = _TETrace[j].cancelled
        /\ now  = _TETrace[i].now
        /\ now' = _TETrace[j].now
        /\ pc  = _TETrace[i].pc
        /\ pc' = _TETrace[j].pc
        /\ hist  = _TETrace[i].hist
        /\ hist' = _TETrace[j].hist
        /\ armed  = _TETrace[i].armed
        /\ armed' = _TETrace[j].armed
        /\ stopAt  = _TETrace[i].stopAt
        /\ stopAt' = _TETrace[j].stopAt
        /\ due  = _TETrace[i].due
        /\ due' = _TETrace[j].due
        /\ created  = _TETrace[i].created
        /\ created' = _TETrace[j].created
        /\ nSel  = _TETrace[i].nSel
        /\ nSel' = _TETrace[j].nSel
        /\ ops  = _TETrace[i].ops
        /\ ops' = _TETrace[j].ops
        /\ nTicked  = _TETrace[i].nTicked
        /\ nTicked' = _TETrace[j].nTicked
        /\ tainted  = _TETrace[i].tainted
        /\ tainted' = _TETrace[j].tainted
        /\ chanFull  = _TETrace[i].chanFull
        /\ chanFull' = _TETrace[j].chanFull

\* Uncomment the ASSUME below to write the states of the error trace
\* to the given file in Json format. Note that you can pass any tuple
\* to `JsonSerialize`. For example, a sub-sequence of _TETrace.
    \* ASSUME
    \*     LET J == INSTANCE Json
    \*         IN J!JsonSerialize("Timer_TTrace_1790656993.json", _TETrace)

=============================================================================

 Note that you can extract this module `Timer_TEExpression`
  to a dedicated file to reuse `expression` (the module in the 
  dedicated `Timer_TEExpression.tla` file takes precedence 
  over the module `Timer_TEExpression` below).

---- MODULE Timer_TEExpression ----
EXTENDS Sequences, TLCExt, Timer, Toolbox, Naturals, TLC, Timer_TEConstants

expression == 
    [
        \* To hide variables of the `Timer` spec from the error trace,
        \* remove the variables below.  The trace will be written in the order
        \* of the fields of this record.
        bad |-> bad
        ,cancelled |-> cancelled
        ,now |-> now
        ,pc |-> pc
        ,hist |-> hist
        ,armed |-> armed
        ,stopAt |-> stopAt
        ,due |-> due
        ,created |-> created
        ,nSel |-> nSel
        ,ops |-> ops
        ,nTicked |-> nTicked
        ,tainted |-> tainted
        ,chanFull |-> chanFull
        
        \* Put additional constant-, state-, and action-level expressions here:
        \* ,_stateNumber |-> _TEPosition
        \* ,_badUnchanged |-> bad = bad'
        
        \* Format the `bad` variable as Json value.
        \* ,_badJson |->
        \*     LET J == INSTANCE Json
        \*     IN J!ToJson(bad)
        
        \* Lastly, you may build expressions over arbitrary sets of states by
        \* leveraging the _TETrace operator.  For example, this is how to
        \* count the number of times a spec variable changed up to the current
        \* state in the trace.
        \* ,_badModCount |->
        \*     LET F[s \in DOMAIN _TETrace] ==
        \*         IF s = 1 THEN 0
        \*         ELSE IF _TETrace[s].bad # _TETrace[s-1].bad
        \*             THEN 1 + F[s-1] ELSE F[s-1]
        \*     IN F[_TEPosition - 1]
    ]

=============================================================================



Parsing and semantic processing can take forever if the trace below is long.
 In this case, it is advised to uncomment the module below to deserialize the
 trace from a generated binary file.

\*
\*---- MODULE Timer_TETrace ----
\*EXTENDS IOUtils, Timer, TLC, Timer_TEConstants
\*
\*trace == IODeserialize("Timer_TTrace_1790656993.bin", TRUE)
\*
\*=============================================================================
\*

---- MODULE Timer_TETrace ----
EXTENDS Timer, TLC, Timer_TEConstants

trace == 
    <<
    ([stopAt |-> (c1 :> -1 @@ c2 :> -1),bad |-> {},created |-> FALSE,nTicked |-> 0,hist |-> <<>>,pc |-> (c1 :> "idle" @@ c2 :> "idle"),ops |-> 0,chanFull |-> FALSE,due |-> -1,tainted |-> FALSE,now |-> 0,armed |-> -1,cancelled |-> FALSE,nSel |-> 0]),
    ([stopAt |-> (c1 :> -1 @@ c2 :> -1),bad |-> {},created |-> TRUE,nTicked |-> 0,hist |-> <<[a |-> "create", kind |-> "interval"]>>,pc |-> (c1 :> "idle" @@ c2 :> "idle"),ops |-> 0,chanFull |-> FALSE,due |-> 2,tainted |-> FALSE,now |-> 0,armed |-> 2,cancelled |-> FALSE,nSel |-> 1]),
    ([stopAt |-> (c1 :> -1 @@ c2 :> -1),bad |-> {},created |-> TRUE,nTicked |-> 0,hist |-> <<[a |-> "create", kind |-> "interval"], [a |-> "tick"]>>,pc |-> (c1 :> "idle" @@ c2 :> "idle"),ops |-> 0,chanFull |-> FALSE,due |-> 2,tainted |-> FALSE,now |-> 1,armed |-> 2,cancelled |-> FALSE,nSel |-> 1]),
    ([stopAt |-> (c1 :> -1 @@ c2 :> -1),bad |-> {},created |-> TRUE,nTicked |-> 0,hist |-> <<[a |-> "create", kind |-> "interval"], [a |-> "tick"], [a |-> "tick"]>>,pc |-> (c1 :> "idle" @@ c2 :> "idle"),ops |-> 0,chanFull |-> FALSE,due |-> 2,tainted |-> FALSE,now |-> 2,armed |-> 2,cancelled |-> FALSE,nSel |-> 1]),
    ([stopAt |-> (c1 :> -1 @@ c2 :> -1),bad |-> {},created |-> TRUE,nTicked |-> 0,hist |-> <<[a |-> "create", kind |-> "interval"], [a |-> "tick"], [a |-> "tick"], [a |-> "fire"]>>,pc |-> (c1 :> "idle" @@ c2 :> "idle"),ops |-> 0,chanFull |-> TRUE,due |-> 2,tainted |-> FALSE,now |-> 2,armed |-> -1,cancelled |-> FALSE,nSel |-> 1]),
    ([stopAt |-> (c1 :> -1 @@ c2 :> -1),bad |-> {},created |-> TRUE,nTicked |-> 1,hist |-> <<[a |-> "create", kind |-> "interval"], [a |-> "tick"], [a |-> "tick"], [a |-> "fire"], [a |-> "ticked"]>>,pc |-> (c1 :> "idle" @@ c2 :> "idle"),ops |-> 0,chanFull |-> FALSE,due |-> 2,tainted |-> FALSE,now |-> 2,armed |-> -1,cancelled |-> FALSE,nSel |-> 0]),
    ([stopAt |-> (c1 :> -1 @@ c2 :> -1),bad |-> {},created |-> TRUE,nTicked |-> 1,hist |-> <<[a |-> "create", kind |-> "interval"], [a |-> "tick"], [a |-> "tick"], [a |-> "fire"], [a |-> "ticked"], [c |-> c1, a |-> "stopA", r |-> FALSE]>>,pc |-> (c1 :> "idle" @@ c2 :> "idle"),ops |-> 1,chanFull |-> FALSE,due |-> -1,tainted |-> TRUE,now |-> 2,armed |-> -1,cancelled |-> TRUE,nSel |-> 0]),
    ([stopAt |-> (c1 :> -1 @@ c2 :> -1),bad |-> {"run_after_cancel"},created |-> TRUE,nTicked |-> 0,hist |-> <<[a |-> "create", kind |-> "interval"], [a |-> "tick"], [a |-> "tick"], [a |-> "fire"], [a |-> "ticked"], [c |-> c1, a |-> "stopA", r |-> FALSE], [a |-> "rearm"]>>,pc |-> (c1 :> "idle" @@ c2 :> "idle"),ops |-> 1,chanFull |-> FALSE,due |-> 4,tainted |-> TRUE,now |-> 2,armed |-> 4,cancelled |-> TRUE,nSel |-> 1])
    >>
----


=============================================================================

---- MODULE Timer_TEConstants ----
EXTENDS Timer

CONSTANTS c1, c2

=============================================================================

---- CONFIG Timer_TTrace_1790656993 ----
CONSTANTS
    Kind = "interval"
    P = 2
    Callers = { c1 , c2 }
    MaxOps = 4
    MaxNow = 7
    Deviations = { "TickWindow" }
    c1 = c1
    c2 = c2

INVARIANT
    _inv

CHECK_DEADLOCK
    \* CHECK_DEADLOCK off because of PROPERTY or INVARIANT above.
    FALSE

INIT
    _init

NEXT
    _next

CONSTANT
    _TETrace <- _trace

ALIAS
    _expression
=============================================================================
\* Generated on Tue Sep 29 04:43:14 UTC 2026