------------------------------ MODULE TimerMon ------------------------------
(* Trace monitor for C19: a deterministic fold of the recorded events of the  *)
(* real utils.Timer into the CONTRACT state of TimerContract.tla; every       *)
(* breach is appended to viol and printed at the end (the orchestrator        *)
(* classifies each entry as VIOLATION or KNOWN-FINDING).                      *)
EXTENDS Integers, Sequences, FiniteSets, TLC, Json, TimerContract

CONSTANT TraceFile
Trace == ndJsonDeserialize(TraceFile)

VARIABLES l, scn, kind, p, due, owed, cancelled, pend, inWin, tainted, live, viol, done
vars == <<l, scn, kind, p, due, owed, cancelled, pend, inWin, tainted, live, viol, done>>

Init == /\ l = 1 /\ scn = "" /\ kind = "" /\ p = 0 /\ due = Off /\ owed = Off /\ cancelled = FALSE
        /\ pend = {} /\ inWin = 0 /\ tainted = FALSE /\ live = FALSE /\ viol = <<>> /\ done = FALSE

Family(clause) == IF clause \in {"run_after_cancel", "run_early", "run_late", "run_not_due", "missed"} THEN "timing"
                  ELSE IF clause \in {"goroutine_leak", "goroutine_leak_at_exit", "goroutine_missing", "timer_left_armed"} THEN "leak"
                  ELSE "other"
V(clause) == [scn |-> scn, line |-> l, clause |-> clause, family |-> Family(clause), tainted |-> tainted, kind |-> kind]
\* Once the tick window has been exploited the contract state no longer tracks the timer,
\* so in a tainted scenario only the first breach is kept (later ones are its consequences).
Add(vs, clause) == IF tainted /\ Len(vs) > 0 /\ vs[Len(vs)].scn = scn /\ vs[Len(vs)].tainted
                   THEN vs ELSE Append(vs, V(clause))
StopAts == {x.at : x \in pend}

Step ==
  LET e == Trace[l]
      \* time passing up to this event without a run: missed?
      miss == live /\ e.e # "reset" /\ inWin = 0 /\ Missed(due, StopAts, e.t)
      v0 == IF miss THEN Add(viol, "missed") ELSE viol
      due0 == IF miss THEN (IF kind = "interval" THEN e.t + p ELSE Off) ELSE due
      owed0 == IF owed # Off /\ e.e # "reset" /\ e.t > owed THEN Off ELSE owed
      Same(vs) == UNCHANGED vs
  IN
  /\ l <= Len(Trace) /\ l' = l + 1 /\ done' = FALSE
  /\ CASE e.e = "reset" ->
            /\ scn' = e.scn /\ kind' = "" /\ p' = 0 /\ due' = Off /\ owed' = Off /\ cancelled' = FALSE
            /\ pend' = {} /\ inWin' = 0 /\ tainted' = FALSE /\ live' = FALSE /\ viol' = viol
       [] e.e = "create" ->
            /\ kind' = e.kind /\ p' = e.p /\ due' = e.t + e.p /\ owed' = Off /\ live' = TRUE /\ viol' = v0
            /\ UNCHANGED <<scn, cancelled, pend, inWin, tainted>>
       [] e.e = "run" ->
            /\ viol' = (IF RunLegal(due0, owed0, cancelled, StopAts, e.t) THEN v0
                        ELSE Add(v0, RunClause(due0, owed0, cancelled, StopAts, e.t)))
            /\ due' = DueAfterRun(kind, p, due0, owed0, e.t)
            /\ owed' = Off
            /\ UNCHANGED <<scn, kind, p, cancelled, pend, inWin, tainted, live>>
       [] e.e = "stop.call" ->
            /\ pend' = pend \cup {[c |-> e.c, at |-> e.t]}
            \* (a Stop arriving while a fired goroutine has not reached the mutex is what the generations are for: no excuse)
            /\ tainted' = tainted
            /\ viol' = v0 /\ due' = due0 /\ owed' = owed0
            /\ UNCHANGED <<scn, kind, p, cancelled, inWin, live>>
       [] e.e = "stop.ret" ->
            /\ pend' = {x \in pend : x.c # e.c}
            /\ cancelled' = TRUE /\ due' = Off /\ owed' = Off /\ viol' = v0
            /\ UNCHANGED <<scn, kind, p, inWin, tainted, live>>
       [] e.e = "refresh.call" ->
            /\ due' = e.t + p /\ owed' = OwedAfterRefresh(due0, owed0, e.t) /\ cancelled' = FALSE
            /\ tainted' = tainted
            /\ viol' = v0
            /\ UNCHANGED <<scn, kind, p, pend, inWin, live>>
       [] e.e = "gate.park" /\ e.point = "timer.fired" ->
            /\ inWin' = inWin + 1
            /\ viol' = v0 /\ due' = due0 /\ owed' = owed0
            /\ UNCHANGED <<scn, kind, p, cancelled, pend, tainted, live>>
       [] e.e = "gate.release" /\ e.point = "timer.fired" ->
            /\ inWin' = (IF inWin > 0 THEN inWin - 1 ELSE 0)
            /\ viol' = v0 /\ due' = due0 /\ owed' = owed0
            /\ UNCHANGED <<scn, kind, p, cancelled, pend, tainted, live>>
       [] e.e = "census" ->
            \* quiescent instant; only meaningful with no call in progress and nobody in the tick window
            /\ viol' = (IF live /\ e.calls = 0 /\ pend = {} /\ inWin = 0 /\ ~CensusLegal(due0, e.g)
                        THEN Add(v0, IF e.g > 1 \/ due0 = Off THEN "goroutine_leak" ELSE "goroutine_missing")
                        ELSE v0)
            /\ due' = due0 /\ owed' = owed0
            /\ UNCHANGED <<scn, kind, p, cancelled, pend, inWin, tainted, live>>
       [] e.e = "cleanup" ->
            \* a Stop still not returned after all gates were opened and time went on: not prompt
            /\ viol' = (IF pend # {} THEN Add(v0, "stop_stuck") ELSE v0)
            /\ live' = FALSE /\ due' = Off /\ owed' = Off
            /\ UNCHANGED <<scn, kind, p, cancelled, pend, inWin, tainted>>
       [] e.e = "cleanup.done" ->
            \* after the final cancellation no goroutine is left and the runtime timer does not fire any more
            /\ viol' = (IF e.g # 0 THEN Add(viol, "goroutine_leak_at_exit")
                        ELSE IF "firedAfter" \in DOMAIN e /\ e.firedAfter # 0 THEN Add(viol, "timer_left_armed") ELSE viol)
            /\ UNCHANGED <<scn, kind, p, due, owed, cancelled, pend, inWin, tainted, live>>
       [] e.e = "bubble.panic" ->
            /\ viol' = Add(viol, IF e.leak THEN "goroutine_leak_at_exit" ELSE "panic")
            /\ UNCHANGED <<scn, kind, p, due, owed, cancelled, pend, inWin, tainted, live>>
       [] e.e \in {"wedged", "process.died"} ->
            /\ viol' = Add(viol, e.e)
            /\ UNCHANGED <<scn, kind, p, due, owed, cancelled, pend, inWin, tainted, live>>
       [] OTHER ->
            /\ viol' = v0 /\ due' = due0 /\ owed' = owed0
            /\ UNCHANGED <<scn, kind, p, cancelled, pend, inWin, tainted, live>>

Finish == /\ l = Len(Trace) + 1 /\ ~done /\ done' = TRUE
          /\ PrintT("VIOLS " \o ToJson(viol))
          /\ PrintT("LINES " \o ToString(Len(Trace)))
          /\ UNCHANGED <<l, scn, kind, p, due, owed, cancelled, pend, inWin, tainted, live, viol>>

Next == Step \/ Finish
Spec == Init /\ [][Next]_vars
=============================================================================
