------------------------------- MODULE WTMon -------------------------------
(* Trace monitor for the WebTransport framing layer (C13, C14, C15).          *)
(* Events (recorded from the real webtransport.Conn):                         *)
(*   wt.seq   write scripts (cells of WTFrame.tla) executed on one Conn, the  *)
(*            frames captured on the wire, and what a peer Conn read back     *)
(*            under several fragmentations                                    *)
(*   wt.pool  two Conns sharing one buffer pool with overlapping writes       *)
(*   rd.case  a byte stream fed to the reader and the result of every         *)
(*            NextReader / Read call                                          *)
(* The monitor evaluates the contract operators of WTFrame.tla on each event  *)
(* and also compares the captured frames with the frames the writer model     *)
(* predicts (conformance of the model to the code).                           *)
EXTENDS WTFrame

CONSTANT TraceFile
Trace == ndJsonDeserialize(TraceFile)

VARIABLES l, scn, viol, nonconf, done
mvars == <<l, scn, viol, nonconf, done, cell>>

MInit == l = 1 /\ scn = "" /\ viol = <<>> /\ nonconf = <<>> /\ done = FALSE /\ cell = 0

\* ---------------------------------------------------------------- writer side
Total(c) == Sum(c.chunks)
RECURSIVE WantAll(_, _)
WantAll(cells, i) == IF i > Len(cells) THEN <<>> ELSE <<[bin |-> cells[i].bin, len |-> Total(cells[i])]>> \o WantAll(cells, i + 1)

SeqViols(e) ==
    LET n == Len(e.cells)
        want == WantAll(e.cells, 1)
        \* (a writer that panicked left nothing behind for some cells: that is a breach, not a reason to stop judging)
        enc(i) == IF i > Len(e.wire) \/ i > Len(e.concatOk) \/ i > Len(e.werrs)
                  THEN <<[clause |-> "wire_not_one_exact_frame", cell |-> e.cells[i], frames |-> 0, prop |-> "C14"]>> ELSE
                  LET c == e.cells[i] w == e.wire[i] IN
                  IF Len(w) = 1 /\ ~w[1].short /\ w[1].hdr = Header(c.bin, Total(c)) /\ w[1].len = Total(c) /\ e.concatOk[i]
                     /\ e.werrs[i] = ""
                  THEN <<>>
                  ELSE <<[clause |-> "wire_not_one_exact_frame", cell |-> c, frames |-> Len(w), prop |-> "C14"]>>
        RECURSIVE encAll(_)
        encAll(i) == IF i > n THEN <<>> ELSE enc(i) \o encAll(i + 1)
        rbOK(k) == LET m == e.rb[k] IN
                   /\ Len(m) = Len(want)
                   /\ \A j \in 1..Len(m) : m[j].bin = want[j].bin /\ m[j].len = want[j].len /\ m[j].intact
        badModes == {k \in DOMAIN e.rb : ~rbOK(k)}
        rt == IF badModes = {} THEN <<>>
              ELSE <<[clause |-> "roundtrip", cell |-> e.cells[1], ncells |-> n, modes |-> badModes, prop |-> "C13"]>>
        pn == IF e.panic = "" THEN <<>> ELSE <<[clause |-> "panic", cell |-> e.cells[1], msg |-> e.panic, prop |-> "C13"]>>
    IN encAll(1) \o rt \o pn

SeqNonconf(e) ==
    LET n == Len(e.cells)
        bad(i) == i > Len(e.wire) \/
                  LET c == e.cells[i]
                      f == FramesOf(c, c.geom, 2 * (c.geom + 9))
                      w == e.wire[i]
                  IN ~(Len(w) = Len(f) /\ \A j \in 1..Len(f) : w[j].hdr = WireHeader(f[j]) /\ w[j].len = f[j].len)
    IN {i \in 1..n : bad(i)}

PoolViols(e) ==
    LET okA == Len(e.rbA) = 1 /\ e.rbA[1].bin /\ e.rbA[1].len = e.lenA /\ e.rbA[1].intact
        okB == Len(e.rbB) = 1 /\ ~e.rbB[1].bin /\ e.rbB[1].len = e.lenB /\ e.rbB[1].intact
    IN IF okA /\ okB THEN <<>> ELSE <<[clause |-> "pool_shared_buffer", lenA |-> e.lenA, lenB |-> e.lenB, prop |-> "C13"]>>

\* ---------------------------------------------------------------- reader side
Big31 == 2147483647

\* fold over the recorded calls; st = [fi, consumed, failed, active], returns the sequence of breached clauses
RECURSIVE RdEval(_, _, _, _, _)
RdEval(ops, i, st, F, limit) ==
    IF i > Len(ops) THEN <<>>
    ELSE
    LET o == ops[i]
        f == IF st.active THEN F[st.fi] ELSE [hdr |-> <<0>>, complete |-> TRUE, supplied |-> 0]
        d == Declared(f.hdr)
        decl == IF d.huge \/ d.neg THEN Big31 ELSE d.len
    IN
    CASE o.op = "next" ->
          IF st.failed # ""
          THEN (IF o.res = "err" /\ o.errs = st.failed THEN <<>> ELSE <<"not_sticky">>)
               \o RdEval(ops, i + 1, st, F, limit)
          ELSE LET prevShort == st.active /\ f.supplied < decl
                   ni == st.fi + 1
               IN IF prevShort \/ ni > Len(F) \/ ~F[ni].complete
                  THEN (IF o.res = "err" THEN <<>> ELSE <<"message_from_truncated_stream">>)
                       \o RdEval(ops, i + 1, [st EXCEPT !.failed = IF o.res = "err" THEN o.errs ELSE "?", !.active = FALSE], F, limit)
                  ELSE LET g == F[ni]
                           dg == Declared(g.hdr)
                           over == dg.neg \/ (limit > 0 /\ (dg.huge \/ dg.len > limit))
                       IN IF over
                          THEN (IF o.res = "err" /\ o.err = "limit" THEN <<>> ELSE <<"limit_not_enforced">>)
                               \o RdEval(ops, i + 1, [st EXCEPT !.failed = IF o.res = "err" THEN o.errs ELSE "?", !.active = FALSE], F, limit)
                          ELSE (IF o.res = "err" THEN <<"wellformed_frame_rejected">>
                                ELSE IF (o.res = "binary") # HdrBin(g.hdr[1]) THEN <<"wrong_kind">> ELSE <<>>)
                               \o RdEval(ops, i + 1,
                                         IF o.res = "err" THEN [st EXCEPT !.failed = o.errs, !.active = FALSE]
                                         ELSE [fi |-> ni, consumed |-> 0, failed |-> "", active |-> TRUE], F, limit)
      [] o.op = "read" ->
          IF ~st.active THEN <<"read_without_frame">> \o RdEval(ops, i + 1, st, F, limit)
          ELSE LET remD == decl - st.consumed
                   remS == f.supplied - st.consumed
                   c2 == st.consumed + o.n
                   v1 == IF o.n > remD THEN <<"overread_declared">> ELSE <<>>
                   v2 == IF o.n > remS THEN <<"overread_supplied">> ELSE <<>>
                   v3 == IF ~o.intact THEN <<"payload_corrupt">> ELSE <<>>
                   v4 == IF o.res = "eof" /\ c2 # decl THEN <<"clean_eof_inside_frame">> ELSE <<>>
                   v5 == IF o.res = "err" /\ ~(c2 = f.supplied /\ f.supplied < decl) /\ c2 <= f.supplied THEN <<"spurious_error">> ELSE <<>>
                   v6 == IF o.res = "err" /\ o.err = "eof" THEN <<"clean_eof_inside_frame">> ELSE <<>>
                   v7 == IF o.res = "ok" /\ o.n = 0 /\ o.want > 0 /\ c2 = f.supplied /\ f.supplied < decl THEN <<>> ELSE <<>>
               IN v1 \o v2 \o v3 \o v4 \o v5 \o v6 \o v7
                  \o RdEval(ops, i + 1,
                            [st EXCEPT !.consumed = c2, !.failed = IF o.res = "err" THEN o.errs ELSE st.failed], F, limit)
      [] o.op = "stale" ->
          (IF o.n # 0 THEN <<"stale_reader_returned_bytes">> ELSE <<>>) \o RdEval(ops, i + 1, st, F, limit)
      [] OTHER -> RdEval(ops, i + 1, st, F, limit)

RdViols(e) ==
    LET raw == IF e.errAt >= 0 /\ e.errAt < Len(e.raw) THEN SubSeq(e.raw, 1, e.errAt) ELSE e.raw
        \* a long stream is recorded by its head and its length
        total == IF e.errAt >= 0 /\ e.errAt < e.rawLen THEN e.errAt ELSE e.rawLen
        F == IF e.rawLen > Len(e.raw) THEN ParseRawT(raw, 1, total) ELSE ParseRaw(raw, 1)
        st0 == [fi |-> 0, consumed |-> 0, failed |-> "", active |-> FALSE]
        cl == RdEval(e.ops, 1, st0, F, e.limit)
        wf == e.errAt < 0 /\ \A k \in 1..Len(F) : F[k].complete /\ ~Declared(F[k].hdr).neg /\ ~Declared(F[k].hdr).huge
                                                    /\ F[k].supplied = Declared(F[k].hdr).len
        \* did the limit apply to a frame with a representable, non-negative length?  then the session must be closed
        limHit == \E k \in 1..Len(e.ops) : e.ops[k].op = "next" /\ e.ops[k].err = "limit"
        needClose == e.session /\ limHit /\ e.limit > 0
                     /\ \E k \in 1..Len(F) : F[k].complete /\ ~Declared(F[k].hdr).neg
                                             /\ (Declared(F[k].hdr).huge \/ Declared(F[k].hdr).len > e.limit)
                                             /\ \A j \in 1..(k - 1) : F[j].complete /\ ~Declared(F[j].hdr).neg /\ ~Declared(F[j].hdr).huge
                                                                      /\ Declared(F[j].hdr).len <= e.limit
        \* C10: an over-limit frame is refused after its header: at most one read buffer (4096) beyond the frames before it
        overLimitAt == IF \E k \in 1..Len(F) : F[k].complete /\ e.limit > 0 /\ (Declared(F[k].hdr).huge \/ Declared(F[k].hdr).len > e.limit)
                       THEN LET k == CHOOSE k \in 1..Len(F) : F[k].complete /\ (Declared(F[k].hdr).huge \/ Declared(F[k].hdr).len > e.limit)
                                                              /\ \A j \in 1..(k - 1) : ~(F[j].complete /\ (Declared(F[j].hdr).huge \/ Declared(F[j].hdr).len > e.limit))
                            IN k ELSE 0
        cl2 == cl \o (IF e.panic # "" THEN <<"panic">> ELSE <<>>)
                  \o (IF overLimitAt = 1 /\ limHit /\ e.consumed > 9 + 8192 THEN <<"oversized_frame_drained">> ELSE <<>>)
                  \o (IF needClose /\ ~e.closed THEN <<"limit_without_session_close">> ELSE <<>>)
    IN [k \in 1..Len(cl2) |-> [clause |-> cl2[k], wellformed |-> wf, pattern |-> e.pattern, frag |-> e.frag, limit |-> e.limit,
                               prop |-> IF cl2[k] = "oversized_frame_drained" THEN "C10"
                                        ELSE IF cl2[k] \in {"wellformed_frame_rejected", "wrong_kind", "payload_corrupt"} /\ wf THEN "C14" ELSE "C15"]]

\* ---------------------------------------------------------------- the fold
Tag(vs) == [k \in 1..Len(vs) |-> [scn |-> scn, line |-> l] @@ vs[k]]

Step ==
    LET e == Trace[l] IN
    /\ l <= Len(Trace) /\ l' = l + 1 /\ done' = FALSE /\ UNCHANGED cell
    /\ scn' = IF e.e = "reset" THEN e.scn ELSE scn
    /\ CASE e.e = "wt.seq" ->
              /\ viol' = viol \o Tag(SeqViols(e))
              /\ nonconf' = IF SeqNonconf(e) = {} THEN nonconf ELSE Append(nonconf, [scn |-> scn, cells |-> SeqNonconf(e)])
         [] e.e = "wt.pool" ->
              /\ viol' = viol \o Tag(PoolViols(e)) /\ UNCHANGED nonconf
         [] e.e = "rd.case" ->
              /\ viol' = viol \o Tag(RdViols(e)) /\ UNCHANGED nonconf
         [] e.e \in {"bubble.panic", "wedged", "process.died"} ->
              /\ viol' = Append(viol, [scn |-> scn, line |-> l, clause |-> e.e, prop |-> "C15"]) /\ UNCHANGED nonconf
         [] OTHER -> UNCHANGED <<viol, nonconf>>

Finish == /\ l = Len(Trace) + 1 /\ ~done /\ done' = TRUE
          /\ PrintT("VIOLS " \o ToJson(viol))
          /\ PrintT("NONCONF " \o ToJson(nonconf))
          /\ PrintT("LINES " \o ToString(Len(Trace)))
          /\ UNCHANGED <<l, scn, viol, nonconf, cell>>

MNext == Step \/ Finish
MSpec == MInit /\ [][MNext]_mvars
=============================================================================
