----------------------------- MODULE EioSession -----------------------------
(* Implementation-shaped model of ONE engine.io session of zishang520/         *)
(* engine.io: socket (engine/socket.go), polling and websocket transports      *)
(* (transports/*.go), the client registry (engine/base-server.go), an upgrade  *)
(* candidate, and a protocol-conformant client.                                *)
(*                                                                            *)
(* The mutable state of the session is ONE record `s`; every procedure of the  *)
(* Go code is an operator from records to records, named after the Go function *)
(* it transcribes, so that composition reads like the code (sendPacket calls   *)
(* flush, OnClose calls clearTransport calls transport.Close calls DoClose ..). *)
(* Every place where another goroutine can run in between is a separate        *)
(* action (a "window"); each window is a verif gate or a listener gate of the  *)
(* harness, so TLC behaviours can be replayed step by step into the real code: *)
(*                                                                            *)
(*   window                         model step boundary        harness gate    *)
(*   flush: buffer taken, "flush"   FlushTake | FlushHand      L.flush         *)
(*     listeners running                                                      *)
(*   `go send` goroutine started    TrSend | PollWrite/WsWrite polling.send.   *)
(*     but not yet writing                                     enter, ws.send. *)
(*                                                             enter           *)
(*   OnClose: state swapped         CloseEnter | CloseMid      socket.onclose. *)
(*                                                             tested          *)
(*   OnClose: "close" listeners     CloseMid | CloseFinish     L.close         *)
(*     running (registry first,                                                *)
(*     application, candidate last)                                            *)
(*   upgrade check: writable seen   (CheckTick is atomic here; its hand-off    *)
(*     | noop sent                   bypasses flushMu, which is the point)     *)
(*                                                                            *)
(* Deviations (constant): behaviours the code HAD (repaired by fix: commits)   *)
(* or that a plausible regression would introduce; with a deviation in the set *)
(* TLC must find the corresponding property violated (sanity of the model):    *)
(*   "CloseRace"       OnClose tests readyState and stores "closed" separately *)
(*   "PollVsClose"     a poll accepted while the transport closes is not       *)
(*                     released                                                *)
(*   "StaleTransport"  flush hands the batch to the transport it saw when it   *)
(*                     took the buffer (not the current one)                   *)
(*   "LateClear"       flush copies the buffer and clears it after the         *)
(*                     listeners ran (packets pushed in between are lost)      *)
(*   "UpgradeOnClosed" an upgrade packet is honoured on a closed session       *)
(*   "CheckNoLock"     the upgrade check hands its noop over without regard to *)
(*                     a flush in progress                                     *)
(*   "WsCloseCutsSend" closing the websocket does not wait for a batch already *)
(*                     handed to its writer goroutine                          *)
(*   "CloseSkipsTaken" Close looks only at the buffer, not at a batch a flush  *)
(*                     in progress has already taken                           *)
(*   "UpgradeNoProbe"  an upgrade packet is honoured on a candidate whose probe  *)
(*                     was never answered                                      *)
(*   "UpgTailEager"    an upgrade completing on a closing session closes the   *)
(*                     new transport at once even with packets still buffered  *)
(*   "FlushForgets"    a flush asked for while another one runs is dropped     *)
(*   "DrainNoRecheck"  a Close waiting for "drain" goes on at the next drain   *)
(*                     even if packets were buffered meanwhile                 *)
(*   "TimeoutOnlyOpen" the heartbeat deadline acts on open sessions only (a        *)
(*                     closing session with a silent peer stays for ever)      *)
(*   "NoCheck"         the upgrade check never releases the pending poll       *)
(*   "CloseMissesDrain" Close tests for pending packets and registers its      *)
(*                     "drain" listener in two steps without looking again: a  *)
(*                     drain emitted in between (or being emitted) is missed   *)
(*   "DreqAbortIsError" the server's own abort of a data request (429) is taken *)
(*                     for the client closing it prematurely (transport error) *)
(*   "OkFirst"         a data request is acknowledged before its packets are   *)
(*                     processed                                               *)
(*   "DreqKeepsSlot"   the 413 / end-of-request path forgets to release the    *)
(*                     data request slot                                       *)
(* With Deviations = {} the model is the code as it stands.                    *)
EXTENDS Integers, Sequences, FiniteSets, TLC, Json, EioProps

CONSTANTS Msgs,        \* payload identifiers the application may send, e.g. {1,2}
          CliMsgs,     \* payload identifiers the client may submit
          MaxPolls,    \* bound on client poll requests
          MaxPings,    \* bound on server pings
          Features,    \* subset of {"close","upgrade","heartbeat","overlap","peer","window","closewin","abort","late","dreq",..}
          PayloadSet,  \* feature "dreq": which set of payloads a data request may carry ("none" | "q" | "t", see Payloads)
          MaxPosts,    \* .. and the bound on data requests
          Deviations

VARIABLES s,     \* the session (record, see Init)
          ob,    \* observation: what the monitor also sees (record)
          hist   \* action history, printed by Emit (hidden from the exhaustive runs by the VIEW)

vars == <<s, ob, hist>>
view == <<s, ob>>

T == {"p", "w"}
Msg(m) == [ty |-> "message", id |-> m]
P(ty) == [ty |-> ty, id |-> 0]
MsgsOf(batch) == LET ms == SelectSeq(batch, LAMBDA p : p.ty = "message") IN [i \in 1..Len(ms) |-> ms[i].id]
SeqSet(q) == {q[i] : i \in 1..Len(q)}
RECURSIVE Flat(_)
Flat(bs) == IF bs = <<>> THEN <<>> ELSE Head(bs) \o Flat(Tail(bs))
Remove(q, i) == SubSeq(q, 1, i - 1) \o SubSeq(q, i + 1, Len(q))
Dev(d) == d \in Deviations

\* the session right after an admitted polling handshake (open packet already answered)
Init ==
  /\ s = [rs |-> "open",            \* socket.readyState: open | closing | closed
          cur |-> "p",              \* socket.transport: "p" polling | "w" websocket
          att |-> [t \in T |-> t = "p"],   \* the socket's listeners are attached to transport t (setTransport .. clearTransport)
          wbuf |-> <<>>,            \* socket.writeBuffer
          fl |-> <<>>,              \* batch taken by a flush in progress (flushMu held), <<>> when none
          flt |-> "p",              \* transport seen by that flush when it tested Writable
          flk |-> "none",           \* what the flushing goroutine does after flush returns: none | poll | upg
          fd |-> FALSE,             \* that flush has handed its batch over and is running its "drain" listeners (flushMu still held)
          fw |-> FALSE,             \* flushWanted: a flush was asked for while another one held flushMu
          wr |-> [t \in T |-> FALSE],      \* transport.writable
          trs |-> [t \in T |-> IF t = "p" THEN "open" ELSE "none"],   \* transport.readyState (none: no such transport)
          poll |-> "none",          \* polling.req: none | pending | gone (pending, but its client went away)
          infl |-> [t \in T |-> <<>>],     \* batches handed to `go send` goroutines that have not written yet
          sc |-> FALSE,             \* polling.shouldClose set (orderly close buffered until the next write / close timeout)
          scfn |-> FALSE,           \* .. and it carries socket.OnClose("forced close")
          pfin |-> FALSE,           \* polling DoClose is inside fn() = socket.OnClose: p.OnClose() runs when that has returned
          pcont |-> <<>>,           \* .. and it was the writer goroutine (shouldClose() inside p.send): the payload it writes afterwards
          disc |-> FALSE,           \* polling transport discarded
          wdisc |-> FALSE,          \* stream transport discarded (Close(true)): its connection is closed without waiting for anything
          wwait |-> FALSE,          \* the stream transport was closed with batches in flight: the connection closes behind them
          upgrading |-> FALSE, upgraded |-> FALSE,
          cand |-> "none",          \* none | attached | probed | dead
          reg |-> TRUE, count |-> 1,       \* client table entry and clientsCount
          enter |-> {},             \* reasons of OnClose calls that swapped the state and have not emitted close yet
          mid |-> {},               \* reasons whose close event is being emitted (registry listener done, candidate listener not yet)
          drainClose |-> FALSE,     \* Close(false) waits for the drain event
          cw |-> FALSE,             \* Close(false) has seen packets pending and has not yet registered its "drain" listener
          dl |-> FALSE,             \* that listener was registered when the "drain" event now being emitted started (Emit calls a snapshot)
          pingOut |-> FALSE,        \* a ping is outstanding
          armed |-> FALSE,          \* .. and its timeout timer is armed
          \* the data request (POST) in progress on the polling transport (feature "dreq")
          dh |-> "none",            \* its handler goroutine: none | tested (slot taken, parked at polling.data.tested) | run |
                                    \* inclose (inside socket.OnClose, which its close packet started)
          dctx |-> FALSE,           \* polling.dataCtx is set (a second data request is an overlap)
          dcl |-> FALSE,            \* its cleanup and its "close" listener are registered (not before the handler passed polling.data.tested)
          dqr |-> <<>>,             \* packets of its payload not processed yet
          ddone |-> FALSE,          \* its HttpContext is done (a response was written, or the client went away): later writes are refused
          dresp |-> <<>>]           \* responses written to it
  /\ ob = [sent |-> <<>>,           \* messages accepted by Send, in order
           rcvd |-> <<>>,           \* messages the client received, in order
           delivered |-> <<>>, submitted |-> <<>>,
           nclose |-> 0, reasons |-> <<>>, npolls |-> 0, npings |-> 0, stuck |-> 0,
           cut |-> 0,               \* batches with messages written to a connection that was already closed
           accepted |-> {},         \* messages accepted before a graceful Close (C12)
           hard |-> FALSE,          \* Close(true) was called
           unprobed |-> FALSE,      \* the transport was switched for a candidate that had not been probed
           ncand |-> 0,             \* candidates opened (counted in the liveness runs only, where the environment must be finite)
           cclosed |-> FALSE,       \* the client has been sent a close packet: a conformant client does not poll any more
           aborted |-> FALSE,       \* the client gave up a poll (it is not "a client that keeps reading" any more)
           dreqs |-> 0,             \* data requests accepted so far
           dgone |-> FALSE,         \* the client gave up the data request in progress (nobody is left to respond to)
           dacc |-> FALSE,          \* some data request has been accepted
           posted |-> {}]           \* client message ids that travelled in a data request
  /\ hist = <<>>

----------------------------------------------------------------------------
(* ---- transports ---------------------------------------------------------- *)
\* transport.Send: SetWritable(false); go send(batch)
TrSend(x, t, batch) == [x EXCEPT !.wr[t] = FALSE, !.infl[t] = Append(@, batch)]

\* socket.OnClose, first step: Swap("closed") (or, before fix aee54c8, a test only)
CloseEnter(x, reason) ==
    IF x.rs = "closed" THEN x
    ELSE IF Dev("CloseRace") THEN [x EXCEPT !.enter = @ \cup {reason}]
    ELSE [x EXCEPT !.rs = "closed", !.enter = @ \cup {reason}]

\* the transport's "close"/"error" events reach socket.OnClose only while the socket's listeners are attached
TrEvent(x, t, reason) == IF x.att[t] THEN CloseEnter(x, reason) ELSE x

\* polling.OnClose: (writable: close the pending poll with a noop) readyState closed, emit close
PClosed(y) == LET c == IF y.wr["p"] THEN TrSend(y, "p", <<P("noop")>>) ELSE y
              IN TrEvent([c EXCEPT !.trs["p"] = "closed", !.pfin = FALSE], "p", "transport close")
\* polling.write of payload b: to the pending poll, into the void of an aborted one, or "polling write error"
HasClose(b) == \E i \in 1..Len(b) : b[i].ty = "close"
PWrite(x, b) == IF x.poll = "pending" THEN [s |-> [x EXCEPT !.poll = "none"], got |-> MsgsOf(b), ok |-> TRUE, cl |-> HasClose(b)]
                ELSE IF x.poll = "gone" THEN [s |-> [x EXCEPT !.poll = "none"], got |-> <<>>, ok |-> TRUE, cl |-> FALSE]
                ELSE [s |-> TrEvent(x, "p", "transport error"), got |-> <<>>, ok |-> FALSE, cl |-> FALSE]
\* what the goroutine that was inside fn() of a polling DoClose does once socket.OnClose has returned
PAfterFn(x) == IF ~x.pfin THEN [s |-> x, got |-> <<>>, cl |-> FALSE]
               ELSE LET a == PClosed(x) IN
                    IF a.pcont = <<>> THEN [s |-> a, got |-> <<>>, cl |-> FALSE]
                    ELSE LET w == PWrite([a EXCEPT !.pcont = <<>>], a.pcont) IN [s |-> w.s, got |-> w.got, cl |-> w.cl]

\* polling.DoClose / websocket.DoClose behind transport.Close(fn); fn = socket.OnClose("forced close") when withFn
TrClose(x, t, withFn) ==
    \* (a transport that is closing can still be closed at once after Discard())
    IF x.trs[t] \in {"closed", "none"} \/ (x.trs[t] = "closing" /\ ~(t = "p" /\ x.disc) /\ ~(t = "w" /\ x.wdisc)) THEN x
    ELSE IF t = "w"
    THEN \* `defer conn.Close(); fn()`: the connection is closed when fn (= socket.OnClose, all of it) has returned;
         \* a batch already handed to the writer goroutine races with that (WsWrite)
         \* (since fix e351117 a batch in flight is written before the connection is closed, unless the transport was discarded)
         LET y == [x EXCEPT !.wwait = x.infl["w"] # <<>> /\ ~x.wdisc /\ ~Dev("WsCloseCutsSend")] IN
         IF withFn /\ y.rs # "closed"
         THEN CloseEnter([y EXCEPT !.trs["w"] = "closing"], "forced close")
         ELSE TrEvent([y EXCEPT !.trs["w"] = "closed"], "w", "transport close")
    ELSE LET onClose(y) == \* fn(); p.OnClose()
                 IF withFn /\ y.rs # "closed"
                 THEN CloseEnter([y EXCEPT !.pfin = TRUE], "forced close")       \* p.OnClose() once socket.OnClose (all of it) has returned
                 ELSE PClosed(y)
             \* a data request still being processed is ended by the server: cleanup (when registered), 429
             abort == x.dctx /\ ~x.ddone
             x1 == IF abort THEN [x EXCEPT !.dctx = ~x.dcl, !.dcl = FALSE, !.ddone = TRUE, !.dresp = Append(@, "429")] ELSE x
             r == IF x1.wr["p"] THEN onClose(TrSend([x1 EXCEPT !.trs["p"] = "closing"], "p", <<P("close")>>))
                  ELSE IF x1.disc THEN onClose([x1 EXCEPT !.trs["p"] = "closing"])
                  ELSE [x1 EXCEPT !.trs["p"] = "closing", !.sc = TRUE, !.scfn = withFn]
         IN \* (before fix 0242b33 the 429 was written with the request's "close" listener still attached: the context's
            \*  close event then reported "data request connection closed prematurely")
            IF abort /\ x.dcl /\ Dev("DreqAbortIsError") THEN TrEvent(r, "p", "transport error") ELSE r

(* ---- socket --------------------------------------------------------------- *)
\* socket.flush up to and including the "flush" listeners: TryLock, state and Writable test, take the buffer
Locked(x) == x.fl # <<>> \/ x.fd
FlushTake(x, k) ==
    IF ~Locked(x) /\ x.rs # "closed" /\ x.wr[x.cur] /\ x.wbuf # <<>>
    THEN [x EXCEPT !.fl = x.wbuf, !.wbuf = IF Dev("LateClear") THEN x.wbuf ELSE <<>>, !.flt = x.cur, !.flk = k]
    ELSE IF Locked(x) /\ ~Dev("FlushForgets") THEN [x EXCEPT !.fw = TRUE]      \* TryLock failed: the holder will look again
    ELSE x
Took(x, y) == ~Locked(x) /\ y.fl # <<>>       \* FlushTake(x, k) = y took a batch

\* socket.closeTransport(discard)
CloseTransport(x, discard) ==
    LET a == IF discard /\ x.cur = "p" THEN [x EXCEPT !.disc = TRUE]
             ELSE IF discard THEN [x EXCEPT !.wdisc = TRUE] ELSE x
    IN TrClose(a, a.cur, TRUE)

\* what the goroutine that called flush does next (rest of onPollRequest / of the upgrade branch of MaybeUpgrade)
PollTail(x) ==
    LET a == IF x.wr["p"] /\ x.sc THEN TrSend(x, "p", <<P("noop")>>) ELSE x       \* pending orderly close: trigger an empty send
    IN IF a.wr["p"] /\ a.trs["p"] = "closed" /\ ~Dev("PollVsClose") THEN TrSend(a, "p", <<P("close")>>) ELSE a
\* (a session closing gracefully with packets still buffered is closed by the Close that waits for "drain", not here)
UpgTail(x) == IF x.rs = "closing" /\ (x.wbuf = <<>> \/ Dev("UpgTailEager")) THEN TrClose(x, "w", TRUE) ELSE x
After(x, k) == CASE k = "poll" -> PollTail(x) [] k = "upg" -> UpgTail(x) [] OTHER -> x

\* socket.flush after the listeners: hand the batch to the transport, emit drain (a waiting Close proceeds), unlock, continue
\* .. the "drain" listeners have run (among them a Close waiting for drain, registered after the application's): unlock, continue
FlushDone(x) ==
    LET k == x.flk
        a == [x EXCEPT !.fd = FALSE, !.flk = "none"]
        \* the Close that waits for "drain" goes on only once nothing accepted is waiting any more (else it waits for the next drain)
        b == IF a.drainClose /\ a.dl /\ (a.wbuf = <<>> \/ Dev("DrainNoRecheck")) THEN CloseTransport([a EXCEPT !.drainClose = FALSE], FALSE) ELSE a
        \* unlock; a flush asked for meanwhile is done now by the same goroutine, before it goes on with its own business
        c == IF b.fw THEN FlushTake([b EXCEPT !.fw = FALSE], k) ELSE b
    IN IF Took(b, c) THEN c ELSE After(c, k)
FlushHand(x) ==
    LET t == IF Dev("StaleTransport") THEN x.flt ELSE x.cur
        a == TrSend([x EXCEPT !.fl = <<>>, !.fd = TRUE, !.dl = x.drainClose,
                              !.wbuf = IF Dev("LateClear") THEN <<>> ELSE x.wbuf], t, x.fl)
    IN IF "dwindow" \in Features THEN a ELSE FlushDone(a)

\* a trigger of flush with continuation k: either the buffer is taken (window open, FlushHand follows) or the tail runs at once
Flush(x, k) == LET y == FlushTake(x, k) IN IF Took(x, y) THEN y ELSE After(y, k)

\* the end of onDataRequest: cleanup(), then "ok" (refused by a context that is done)
DqFinishR(x, r) == [x EXCEPT !.dh = "none", !.dctx = IF Dev("DreqKeepsSlot") THEN @ ELSE FALSE, !.dcl = FALSE, !.dqr = <<>>, !.ddone = TRUE,
                            !.dresp = IF x.ddone THEN @ ELSE Append(@, r)]
DqFinish(x) == DqFinishR(x, "ok")
\* the handler whose close packet started socket.OnClose goes on when that has returned
DqResume(x) == IF x.dh = "inclose" THEN DqFinish(x) ELSE x
\* polling.OnClose called for a close packet in a payload (the goroutine of a DoClose that may be inside fn() is another one)
DqPClosed(x) == LET c == IF x.wr["p"] THEN TrSend(x, "p", <<P("noop")>>) ELSE x
                IN IF x.trs["p"] = "closed" THEN c ELSE TrEvent([c EXCEPT !.trs["p"] = "closed"], "p", "transport close")

\* socket.sendPacket
SendPacket(x, p) == IF x.rs = "open" THEN Flush([x EXCEPT !.wbuf = Append(@, p)], "none") ELSE x

----------------------------------------------------------------------------
\* with the feature "lastonly" the history is cut to the last action: the state graph (dumped by TLC without the VIEW) then
\* carries on every state the action that produced it, which is what the transition-cover replay needs
\* (feature "nohist": no history at all - the liveness runs, which cannot use a VIEW)
H(a) == hist' = IF "nohist" \in Features THEN <<>> ELSE IF "lastonly" \in Features THEN <<a>> ELSE Append(hist, a)

(* application *)
AppSend(m) ==
    /\ m \notin SeqSet(ob.sent) /\ (\A k \in Msgs : k < m => k \in SeqSet(ob.sent))
    /\ s.rs = "open"
    /\ s' = SendPacket(s, Msg(m))
    /\ ob' = [ob EXCEPT !.sent = Append(@, m)]
    /\ H([a |-> "send", m |-> m])

\* the goroutine parked in the flush listeners goes on
FlushGo ==
    /\ s.fl # <<>>
    /\ s' = FlushHand(s)
    /\ UNCHANGED ob
    /\ H([a |-> "flush.hand"])

FlushEnd ==
    /\ s.fd
    /\ s' = FlushDone(s)
    /\ UNCHANGED ob
    /\ H([a |-> "flush.done"])

\* socket.Close(false), packets pending: s.On("drain", onDrain), then (since fix ...) onDrain() itself once - the drain it
\* waits for may have been emitted, or be under way, since Close looked at the counter
Pending(x) == x.wbuf # <<>> \/ (x.fl # <<>> /\ ~Dev("CloseSkipsTaken"))
CloseWait(x) ==
    LET a == [x EXCEPT !.cw = FALSE, !.drainClose = TRUE] IN
    IF ~Pending(a) /\ ~Dev("CloseMissesDrain") THEN CloseTransport([a EXCEPT !.drainClose = FALSE], FALSE) ELSE a

\* socket.Close(discard)
AppClose(discard) ==
    /\ "close" \in Features
    /\ IF discard /\ s.rs \in {"open", "closing"} THEN s' = CloseTransport(s, TRUE)
       ELSE /\ s.rs = "open"
            /\ LET a == [s EXCEPT !.rs = "closing"] IN
               s' = IF Pending(a) THEN (IF "cwindow" \in Features THEN [a EXCEPT !.cw = TRUE] ELSE CloseWait(a))
                    ELSE CloseTransport(a, FALSE)
    /\ ob' = IF discard THEN [ob EXCEPT !.hard = TRUE] ELSE [ob EXCEPT !.accepted = SeqSet(ob.sent)]
    /\ H([a |-> "appclose", discard |-> discard])

\* the Close parked between its test of the counter and the registration of its listener goes on
AppCloseWait ==
    /\ s.cw
    /\ s' = CloseWait(s)
    /\ UNCHANGED ob
    /\ H([a |-> "appclose.wait"])

\* socket.OnClose, second step: timers, callbacks, clearTransport, then the first listeners of "close"
\* (the registry's, registered in Handshake before anybody else could, and the application's)
CloseMid(reason) ==
    /\ reason \in s.enter
    /\ LET a == [s EXCEPT !.enter = @ \ {reason}, !.mid = @ \cup {reason}, !.rs = "closed", !.pingOut = FALSE, !.armed = FALSE,
                          !.att = [t \in T |-> FALSE]]
           b == TrClose(a, a.cur, FALSE)
       IN s' = IF b.reg THEN [b EXCEPT !.reg = FALSE, !.count = @ - 1] ELSE b
    /\ ob' = [ob EXCEPT !.nclose = @ + 1, !.reasons = Append(@, reason)]
    /\ H([a |-> "onclose.mid", reason |-> reason])

\* .. third step: the candidate's close listener (registered last, at upgrade time) fails the upgrade; the buffer is cleared
CloseFinish(reason) ==
    /\ reason \in s.mid
    /\ LET a == [s EXCEPT !.mid = @ \ {reason}, !.wbuf = <<>>, !.trs["w"] = IF @ = "closing" THEN "closed" ELSE @]
           b == IF a.cand \in {"attached", "probed"}
                THEN [a EXCEPT !.cand = "dead", !.upgrading = FALSE, !.trs["w"] = "closed"]
                ELSE a
           f == PAfterFn(b)          \* socket.OnClose returns: a polling DoClose that called it goes on
       IN s' = DqResume(f.s) /\ ob' = [ob EXCEPT !.rcvd = @ \o f.got, !.cclosed = @ \/ f.cl]
    /\ H([a |-> "onclose.finish", reason |-> reason])

\* without the windows the two steps are one (keeps the state space of the families that do not study them small)
CloseRest(reason) ==
    /\ reason \in s.enter
    /\ LET a == [s EXCEPT !.enter = @ \ {reason}, !.rs = "closed", !.pingOut = FALSE, !.armed = FALSE, !.att = [t \in T |-> FALSE]]
           b == TrClose(a, a.cur, FALSE)
           c == IF b.reg THEN [b EXCEPT !.reg = FALSE, !.count = @ - 1] ELSE b
           d == [c EXCEPT !.wbuf = <<>>, !.trs["w"] = IF @ = "closing" THEN "closed" ELSE @]
           e == IF d.cand \in {"attached", "probed"} THEN [d EXCEPT !.cand = "dead", !.upgrading = FALSE, !.trs["w"] = "closed"] ELSE d
           f == PAfterFn(e)
       IN s' = DqResume(f.s) /\ ob' = [ob EXCEPT !.nclose = @ + 1, !.reasons = Append(@, reason), !.rcvd = @ \o f.got, !.cclosed = @ \/ f.cl]
    /\ H([a |-> "onclose.rest", reason |-> reason])

----------------------------------------------------------------------------
(* polling transport *)
\* the client opens a poll: onPollRequest
CliPoll ==
    /\ ob.npolls < MaxPolls /\ s.reg /\ s.cur = "p" /\ ~ob.cclosed
    /\ ob' = [ob EXCEPT !.npolls = @ + 1,
                        !.stuck = IF s.poll = "none" /\ s.trs["p"] = "closed" /\ Dev("PollVsClose") THEN @ + 1 ELSE @]
    /\ IF s.poll # "none"
       THEN /\ "overlap" \in Features
            /\ s' = TrEvent(s, "p", "transport error")      \* 400 + OnError("overlap from client")
            /\ H([a |-> "poll.overlap"])
       ELSE /\ LET a == [s EXCEPT !.poll = "pending", !.wr["p"] = TRUE] IN
               s' = IF a.att["p"] THEN Flush(a, "poll") ELSE PollTail(a)       \* emit ready -> socket.flush
            /\ H([a |-> "poll"])

\* one `go p.send(batch)` goroutine runs (they race for p.mu: any of them may be next)
PollWrite(i) ==
    /\ i \in 1..Len(s.infl["p"])
    /\ LET b0 == s.infl["p"][i]
           a0 == [s EXCEPT !.infl["p"] = Remove(@, i)]
           \* a buffered orderly close goes out with this payload: shouldClose() = clear timer; fn(); p.OnClose(), then the write
           b == IF a0.sc THEN Append(b0, P("close")) ELSE b0
           c == [a0 EXCEPT !.sc = FALSE, !.scfn = FALSE]
       IN IF a0.sc /\ a0.scfn /\ a0.rs # "closed"
          THEN \* the writer goroutine is now inside socket.OnClose; it goes on (p.OnClose, write) when that has returned
               /\ s' = CloseEnter([c EXCEPT !.pfin = TRUE, !.pcont = b], "forced close")
               /\ UNCHANGED ob
               /\ H([a |-> "pollwrite", ok |-> TRUE, i |-> i])
          ELSE LET a1 == IF a0.sc THEN PClosed(c) ELSE a0
                   w == PWrite(a1, b)
               IN /\ s' = w.s
                  /\ ob' = [ob EXCEPT !.rcvd = @ \o w.got, !.cclosed = @ \/ w.cl]
                  /\ H([a |-> "pollwrite", ok |-> w.ok, i |-> i])

\* the close timeout of a buffered orderly close elapses
CloseTimeoutFire ==
    /\ "ctimeout" \in Features /\ s.sc
    /\ LET c == [s EXCEPT !.sc = FALSE, !.scfn = FALSE] IN
       s' = IF s.scfn /\ c.rs # "closed" THEN CloseEnter([c EXCEPT !.pfin = TRUE], "forced close") ELSE PClosed(c)
    /\ UNCHANGED ob
    /\ H([a |-> "closetimeout"])

\* the client gives up its pending poll (connection dropped)
PollAbort ==
    /\ "abort" \in Features /\ s.poll = "pending" /\ s.reg
    /\ s' = TrEvent([s EXCEPT !.wr["p"] = FALSE, !.poll = "gone"], "p", "transport error")      \* the slot stays taken (p.req is only reset by a write)
    /\ ob' = [ob EXCEPT !.aborted = TRUE]
    /\ H([a |-> "poll.abort"])

\* the client submits a message (data request, or a frame once upgraded)
CliMsg(m) ==
    /\ m \notin SeqSet(ob.submitted) /\ m \notin SeqSet(ob.delivered) /\ m \notin ob.posted /\ s.reg /\ s.rs \in {"open", "closing"} /\ s.att[s.cur]
    /\ ("dreq" \in Features => s.cur = "w")          \* (with the feature, what a polling client submits travels in data requests)
    /\ ob' = [ob EXCEPT !.submitted = IF s.rs = "open" /\ s.enter = {} THEN Append(@, m) ELSE @,
                        !.delivered = IF s.rs = "open" THEN Append(@, m) ELSE @]
    /\ UNCHANGED s
    /\ H([a |-> "climsg", m |-> m])

\* the client posts a close packet (polling) or closes its socket (websocket)
PeerClose ==
    /\ "peer" \in Features /\ s.reg /\ s.trs[s.cur] = "open" /\ ("dreq" \in Features => s.cur = "w")
    /\ LET t == s.cur
           a == IF t = "p" /\ s.wr["p"] THEN TrSend(s, "p", <<P("noop")>>) ELSE s      \* close pending poll request
       IN s' = TrEvent([a EXCEPT !.trs[t] = "closed"], t, "transport close")
    /\ UNCHANGED ob
    /\ H([a |-> "peerclose"])

----------------------------------------------------------------------------
(* data requests (feature "dreq"): onDataRequest runs on the request's goroutine; its yield points are polling.data.tested   *)
(* (slot taken, nothing registered yet) and, after every packet other than close, the harness's own listener of the        *)
(* transport's "packet" event.  A payload is a sequence over "m" (message: the next unused client id), "c" (close), "o"     *)
(* (pong), "X" (a body whose declared length is above the limit: refused with 413, the slot released).                    *)
Dreq == "dreq" \in Features
Payloads == CASE PayloadSet = "q" -> {<<"m">>, <<"m", "c", "m">>, <<"o">>, <<"X">>}
              [] PayloadSet = "t" -> {<<>>, <<"m">>, <<"m", "m">>, <<"m", "c", "m">>, <<"o">>, <<"o", "m">>, <<"c">>, <<"X">>}
              [] OTHER -> {}
NMsg(k) == Cardinality({i \in 1..Len(k) : k[i] = "m"})
RECURSIVE Assign(_, _)
Assign(k, free) == IF k = <<>> THEN <<>>
                   ELSE IF Head(k) = "m" THEN LET m == CHOOSE x \in free : \A y \in free : x <= y
                                              IN <<Msg(m)>> \o Assign(Tail(k), free \ {m})
                   ELSE <<P(CASE Head(k) = "c" -> "close" [] Head(k) = "X" -> "big" [] OTHER -> "pong")>> \o Assign(Tail(k), free)
RECURSIVE KStr(_)
KStr(k) == IF k = <<>> THEN "" ELSE Head(k) \o KStr(Tail(k))
RECURSIVE BeforeClose(_)
BeforeClose(b) == IF b = <<>> \/ Head(b).ty = "close" THEN <<>> ELSE <<Head(b)>> \o BeforeClose(Tail(b))

\* the request is accepted: dataCtx.CompareAndSwap(nil, ctx)
DqOpen(k) ==
    /\ Dreq /\ ob.dreqs < MaxPosts /\ s.reg /\ s.cur = "p" /\ s.dh = "none" /\ ~s.dctx
    /\ NMsg(k) <= Cardinality(CliMsgs \ ob.posted)
    /\ LET b == Assign(k, CliMsgs \ ob.posted)
           elig == IF s.rs = "open" /\ s.enter = {} THEN MsgsOf(BeforeClose(b)) ELSE <<>>
       IN /\ s' = [s EXCEPT !.dh = "tested", !.dctx = TRUE, !.dcl = FALSE, !.dqr = b, !.ddone = Dev("OkFirst"),
                            !.dresp = IF Dev("OkFirst") THEN <<"ok">> ELSE <<>>]
          /\ ob' = [ob EXCEPT !.dreqs = @ + 1, !.dgone = FALSE, !.dacc = TRUE, !.submitted = @ \o elig,
                              !.posted = @ \cup SeqSet(MsgsOf(b))]
    /\ H([a |-> "post", k |-> KStr(k)])
\* a second data request while the slot is taken: 400 + OnError("data request overlap from client")
DqOverlap ==
    /\ Dreq /\ "overlap" \in Features /\ s.dctx /\ s.reg /\ s.cur = "p" /\ ob.dreqs < MaxPosts
    /\ s' = TrEvent(s, "p", "transport error")
    /\ ob' = [ob EXCEPT !.dreqs = @ + 1]
    /\ H([a |-> "post.overlap"])
\* the handler runs to its next yield point: (first) registers cleanup and "close" listener, reads the body; processes one packet;
\* with nothing left: cleanup, "ok"
DqStep ==
    /\ s.dh \in {"tested", "run"}
    /\ LET a == IF s.dh = "tested" THEN [s EXCEPT !.dh = "run", !.dcl = ~s.ddone] ELSE s IN
       IF a.dqr = <<>>
       THEN s' = DqFinish(a) /\ UNCHANGED ob /\ H([a |-> "post.step", ty |-> "end"])
       ELSE IF Head(a.dqr).ty = "big"      \* the declared length is above the limit: cleanup, 413, nothing is read
       THEN s' = DqFinishR(a, "413") /\ UNCHANGED ob /\ H([a |-> "post.step", ty |-> "big"])
       ELSE LET p == Head(a.dqr)
                b == [a EXCEPT !.dqr = Tail(@)]
                live == b.rs = "open" /\ b.att["p"]
            IN /\ H([a |-> "post.step", ty |-> p.ty])
               /\ IF p.ty = "message"
                  THEN s' = b /\ ob' = [ob EXCEPT !.delivered = IF live THEN Append(@, p.id) ELSE @]
                  ELSE IF p.ty = "pong"
                  THEN s' = (IF live /\ b.pingOut THEN [b EXCEPT !.pingOut = FALSE, !.armed = FALSE] ELSE b) /\ UNCHANGED ob
                  ELSE LET c == DqPClosed([b EXCEPT !.dqr = <<>>]) IN
                       s' = (IF c.enter # b.enter THEN [c EXCEPT !.dh = "inclose"] ELSE DqFinish(c)) /\ UNCHANGED ob
\* the client gives the data request up: the context is done, its "close" event finds the handler's listener (if registered)
DqAbort ==
    /\ Dreq /\ "abort" \in Features /\ s.dh \in {"tested", "run", "inclose"} /\ ~s.ddone /\ s.reg
    /\ LET a == [s EXCEPT !.ddone = TRUE] IN
       s' = IF a.dcl THEN TrEvent([a EXCEPT !.dctx = FALSE, !.dcl = FALSE], "p", "transport error") ELSE a
    /\ ob' = [ob EXCEPT !.dgone = TRUE]
    /\ H([a |-> "post.abort"])

----------------------------------------------------------------------------
(* websocket transport: one `go w.send(batch)` goroutine runs *)
WsWrite ==
    /\ s.infl["w"] # <<>>
    /\ LET b == Head(s.infl["w"])
           live == s.trs["w"] \in {"open", "closing"} \/ s.wwait
           a == [s EXCEPT !.infl["w"] = Tail(@), !.wr["w"] = TRUE, !.wwait = s.wwait /\ Tail(s.infl["w"]) # <<>>]
       IN /\ s' = IF a.att["w"] THEN Flush(a, "none") ELSE a      \* drain, writable, ready -> socket.flush
          /\ ob' = IF live THEN [ob EXCEPT !.rcvd = @ \o MsgsOf(b)]
                   ELSE [ob EXCEPT !.cut = IF MsgsOf(b) # <<>> THEN @ + 1 ELSE @]
    /\ H([a |-> "wswrite"])

----------------------------------------------------------------------------
(* upgrade *)
CandOpen ==
    /\ "upgrade" \in Features /\ s.cand = "none" /\ s.reg /\ ~s.upgrading /\ ~s.upgraded
    /\ ("nohist" \notin Features \/ ob.ncand < 2)
    /\ s' = [s EXCEPT !.cand = "attached", !.upgrading = TRUE, !.trs["w"] = "open", !.wr["w"] = TRUE]
    /\ ob' = IF "nohist" \in Features THEN [ob EXCEPT !.ncand = @ + 1] ELSE ob
    /\ H([a |-> "cand.open"])
CandProbe ==
    /\ s.cand = "attached"
    /\ s' = TrSend([s EXCEPT !.cand = "probed"], "w", <<P("pong")>>)
    /\ UNCHANGED ob
    /\ H([a |-> "cand.probe"])
\* the 100 ms check: release a pending poll with a noop; since fix ... it steps aside while a flush is in progress
CheckTick ==
    /\ ~Dev("NoCheck")
    /\ s.cand = "probed" /\ s.cur = "p" /\ s.wr["p"] /\ s.att["p"]
    /\ (~Locked(s) \/ Dev("CheckNoLock"))
    /\ s' = TrSend(s, "p", <<P("noop")>>)
    /\ UNCHANGED ob
    /\ H([a |-> "check"])
\* the conformant client sends "upgrade" only after the probe pong and with no poll outstanding
\* (a candidate that sends "upgrade" without having been probed is an unexpected packet: CandFail)
CandUpgrade ==
    /\ (s.cand = "probed" \/ (Dev("UpgradeNoProbe") /\ s.cand = "attached")) /\ s.poll = "none" /\ s.infl["p"] = <<>> /\ s.infl["w"] = <<>>
    /\ s.dh = "none"            \* (.. nor a data request)
    /\ IF s.rs = "closed" /\ ~Dev("UpgradeOnClosed")
       THEN \* too late: cleanup, the candidate is closed
            /\ "late" \in Features
            /\ s' = [s EXCEPT !.cand = "dead", !.upgrading = FALSE, !.trs["w"] = "closed"]
            /\ H([a |-> "cand.upgrade.late"])
       ELSE /\ (s.rs # "closed" \/ "late" \in Features)
            /\ LET a == [s EXCEPT !.cand = "none", !.upgrading = FALSE, !.upgraded = TRUE, !.disc = TRUE,
                                  !.att = [t \in T |-> FALSE], !.armed = FALSE]       \* cleanup, Discard, clearTransport ..
                   b == TrClose(a, "p", FALSE)
                   c == [b EXCEPT !.cur = "w", !.att["w"] = TRUE]                     \* .. setTransport
               IN s' = Flush(c, "upg")
            /\ H([a |-> "cand.upgrade"])
    /\ ob' = [ob EXCEPT !.unprobed = @ \/ (s.cand = "attached" /\ (s.rs # "closed" \/ Dev("UpgradeOnClosed")))]
\* the candidate fails (unexpected packet, connection lost, upgrade timeout): only the candidate is closed
CandFail ==
    /\ s.cand \in {"attached", "probed"}
    /\ s' = [s EXCEPT !.cand = "none", !.upgrading = FALSE, !.trs["w"] = "none", !.wr["w"] = FALSE, !.infl["w"] = <<>>, !.wwait = FALSE]
    /\ UNCHANGED ob
    /\ H([a |-> "cand.fail"])

----------------------------------------------------------------------------
(* heartbeat (revision 4), time abstracted: the ping timer fires, the client answers or the deadline passes *)
\* (the ping timer of a session that is closing fires as well: sendPacket drops the ping, the deadline is armed all the same -
\*  that deadline is what bounds a graceful close whose data the client never fetches, C12)
PingFire ==
    /\ "heartbeat" \in Features /\ s.rs \in {"open", "closing"} /\ ~s.pingOut /\ s.enter = {}
    /\ (s.rs = "closing" \/ ob.npings < MaxPings)
    /\ s' = [SendPacket(s, P("ping")) EXCEPT !.pingOut = TRUE, !.armed = TRUE]
    /\ ob' = IF s.rs = "open" THEN [ob EXCEPT !.npings = @ + 1] ELSE ob
    /\ H([a |-> "ping"])
Pong ==
    /\ s.pingOut /\ s.rs = "open" /\ s.att[s.cur] /\ ("dreq" \in Features => s.cur = "w")
    /\ s' = [s EXCEPT !.pingOut = FALSE, !.armed = FALSE]
    /\ UNCHANGED ob
    /\ H([a |-> "pong"])
PingTimeout ==
    /\ s.pingOut /\ s.armed /\ s.rs # "closed" /\ (s.rs = "open" \/ ~Dev("TimeoutOnlyOpen"))
    /\ s' = CloseEnter(s, "ping timeout")
    /\ UNCHANGED ob
    /\ H([a |-> "pingtimeout"])

Windows == "window" \in Features
CloseWin == "closewin" \in Features

Next == \/ \E m \in Msgs : AppSend(m)
        \/ FlushGo \/ FlushEnd
        \/ (\E d \in BOOLEAN : AppClose(d)) \/ AppCloseWait
        \/ CliPoll \/ (\E i \in 1..2 : PollWrite(i)) \/ WsWrite \/ PeerClose \/ PollAbort \/ CloseTimeoutFire
        \/ \E m \in CliMsgs : CliMsg(m)
        \/ (\E k \in Payloads : DqOpen(k)) \/ DqOverlap \/ DqStep \/ DqAbort
        \/ (CloseWin /\ \E r \in s.enter : CloseMid(r))
        \/ (CloseWin /\ \E r \in s.mid : CloseFinish(r))
        \/ (~CloseWin /\ \E r \in s.enter : CloseRest(r))
        \/ CandOpen \/ CandProbe \/ CheckTick \/ CandUpgrade \/ CandFail
        \/ PingFire \/ Pong \/ PingTimeout

\* without the feature "window" a flush in progress is handed over before anything else happens
NextW == IF ~Windows /\ s.fl # <<>> THEN FlushGo ELSE Next

Spec == Init /\ [][NextW]_vars

----------------------------------------------------------------------------
IsPrefix(a, b) == Len(a) <= Len(b) /\ SubSeq(b, 1, Len(a)) = a
InClose == s.enter # {} \/ s.mid # {}
Quiet == ~InClose /\ s.infl["p"] = <<>> /\ s.infl["w"] = <<>> /\ ~Locked(s) /\ ~s.cw /\ s.dh = "none"

TypeOK == /\ s.rs \in {"open", "closing", "closed"} /\ s.cur \in T /\ s.poll \in {"none", "pending", "gone"}
          /\ s.cand \in {"none", "attached", "probed", "dead"} /\ s.flk \in {"none", "poll", "upg"} /\ s.fw \in BOOLEAN /\ s.fd \in BOOLEAN /\ s.cw \in BOOLEAN /\ s.dl \in BOOLEAN
          /\ \A t \in T : s.trs[t] \in {"none", "open", "closing", "closed"}
          /\ s.dh \in {"none", "tested", "run", "inclose"} /\ s.dctx \in BOOLEAN /\ s.dcl \in BOOLEAN /\ s.ddone \in BOOLEAN

\* C01: what the client has received is always a prefix of what Send accepted
C01_Prefix == IsPrefix(ob.rcvd, ob.sent)
\* C01: on an open, quiet session nothing accepted is lost: it was received, or is buffered / in flight in order
C01_NothingLost == (s.rs = "open" /\ ~InClose) =>
                      LET pending == MsgsOf(s.fl) \o MsgsOf(s.wbuf)
                          flying == MsgsOf(Flat(s.infl[s.cur]))
                      IN ob.sent = ob.rcvd \o flying \o pending
\* C01: packets never sit in the buffer of an open session whose transport is writable with nobody about to hand them over
C01_NoStuckBuffer == ~(s.rs = "open" /\ ~InClose /\ ~Locked(s) /\ s.wbuf # <<>> /\ s.wr[s.cur] /\ s.att[s.cur])
\* C02: what the application was handed is what the client submitted while the session was open, in order
C02_Order == IsPrefix(ob.submitted, ob.delivered) \/ IsPrefix(ob.delivered, ob.submitted)
\* C02: with no data request in progress on an open session, everything eligible has been delivered
C02_DqAll == (s.rs = "open" /\ ~InClose /\ s.dh = "none") => ob.delivered = ob.submitted
C02_DqPrefix == "dreq" \in Features => IsPrefix(ob.delivered, ob.submitted)
\* C11: a data request gets exactly one response (unless its client went away), "ok" only when its handler is through, and
\* the slot is free again afterwards
C11_DqOneResponse == Len(s.dresp) <= 1 /\ ((s.dh = "none" /\ ob.dacc /\ ~ob.dgone) => Len(s.dresp) = 1)
C11_OkAfterAll == "ok" \in SeqSet(s.dresp) => s.dh = "none"
C11_SlotFree == s.dh = "none" => ~s.dctx
\* C03: at most one close event; the state never leaves closed; a close event only for a cause
C03_OneClose == ob.nclose <= 1
C03_ClosedIsFinal == ob.nclose = 1 => s.rs = "closed"
\* C03: an open session is not closed by the server's own doing: "transport error" needs a client fault
\* (overlap, abort) - the hand-offs racing each other is not one
C03_NoSpuriousError == ("overlap" \notin Features /\ "abort" \notin Features) => "transport error" \notin (s.enter \cup s.mid \cup SeqSet(ob.reasons))
\* C04: registry and count coincide with "not closed" whenever no close is in progress
C04_Registry == ~InClose => (s.reg <=> s.rs # "closed") /\ s.count = (IF s.reg THEN 1 ELSE 0)
C04_NoUnderflow == s.count >= 0
\* C11/C12: a poll accepted is not left pending once the session is closed and everything has been written
C12_PollReleased == (Quiet /\ s.rs = "closed" /\ ~s.sc) => (s.poll \in {"none", "gone"} \/ (ob.stuck > 0 /\ Dev("PollVsClose")))
C11_NoStuckPoll == ob.stuck = 0
\* C12: whatever was accepted before a graceful Close has reached the client once the session is closed and quiet,
\* unless something else ended the session first
C12_BufferedFirst == (Quiet /\ s.rs = "closed" /\ ob.reasons = <<"forced close">> /\ ~ob.hard /\ ~ob.aborted) => ob.accepted \subseteq SeqSet(ob.rcvd)
\* C12: a graceful Close never waits for a "drain" that nobody is going to emit: with nothing pending and no drain event under
\* way the Close has gone on to close the transport (else the session lingers until the next heartbeat deadline)
C12_NoLostWakeup == ~(s.rs = "closing" /\ s.drainClose /\ ~s.cw /\ s.wbuf = <<>> /\ s.fl = <<>> /\ ~(s.fd /\ s.dl))
\* C08: the transport changes only through CandUpgrade, at most once, never on a closed session
C08_AtMostOnce == (s.cur = "w") => s.upgraded
C08_FailureKeepsSession == (s.cand = "none" /\ ~s.upgraded /\ s.rs = "open") => ~s.upgrading
C08_NotOnClosed == (s.upgraded /\ ob.nclose = 1) => (s.cur = "w" => ~Dev("UpgradeOnClosed"))
\* C08: the transport is switched only for a candidate whose probe was answered
C08_ProbeFirst == ~ob.unprobed
\* C03/C08: after the close event nothing else happens to the session: an upgrade after it is a breach
C03_SilentAfterClose == [][(ob.nclose = 1 /\ ~s.upgraded) => ~s'.upgraded]_vars
\* C07: while a ping is outstanding on an open session its deadline is armed (an upgrade completing between a ping and
\* its deadline cancels the deadline: upstream design, excluded by the property's quantifier)
C07_DeadlineArmed == (s.pingOut /\ s.rs = "open" /\ ~InClose /\ ~s.upgraded) => s.armed

----------------------------------------------------------------------------
(* ---- liveness: the "eventually" halves of the properties, checked under fairness of everything the SERVER does by     *)
(* itself (goroutines that have been started run to their next yield point, timers that stay due fire) and of a client  *)
(* that keeps reading; configurations for these use the feature "nohist" and no VIEW                                   *)
Internal == \/ DqStep \/ FlushGo \/ FlushEnd \/ (\E i \in 1..2 : PollWrite(i)) \/ WsWrite \/ AppCloseWait
            \/ (CloseWin /\ \E r \in s.enter : CloseMid(r)) \/ (CloseWin /\ \E r \in s.mid : CloseFinish(r))
            \/ (~CloseWin /\ \E r \in s.enter : CloseRest(r))
\* (one fairness condition per goroutine: none of them is starved by the others)
FairSpec == /\ Spec
            /\ WF_vars(FlushGo) /\ WF_vars(FlushEnd) /\ WF_vars(\E i \in 1..2 : PollWrite(i)) /\ WF_vars(WsWrite) /\ WF_vars(AppCloseWait)
            /\ WF_vars(CloseWin /\ \E r \in s.enter : CloseMid(r)) /\ WF_vars(CloseWin /\ \E r \in s.mid : CloseFinish(r))
            /\ WF_vars(~CloseWin /\ \E r \in s.enter : CloseRest(r))
            /\ WF_vars(CloseTimeoutFire) /\ WF_vars(PingFire) /\ WF_vars(PingTimeout) /\ WF_vars(CheckTick)
            /\ WF_vars(CliPoll) /\ SF_vars(CandUpgrade) /\ WF_vars(DqStep)
\* C12: a session that is closing gracefully closes (close packet fetched, close timeout, or the next heartbeat deadline)
L_C12_ClosingCloses == (s.rs = "closing") ~> (s.rs = "closed")
\* C01: while the session stays open and the client keeps reading (it has polls left, did not give one up, was not told to stop),
\* everything Send accepted is eventually received
ClientReads == ob.npolls < MaxPolls /\ ~ob.aborted /\ ~ob.cclosed /\ s.poll # "gone"
L_C01_Delivered == (s.rs = "open" /\ ob.rcvd # ob.sent) ~> (ob.rcvd = ob.sent \/ s.rs # "open" \/ InClose \/ ~ClientReads)
\* C11 / C12: a poll that is pending when the session has closed is answered
L_C11_PollAnswered == (s.poll = "pending" /\ s.rs = "closed") ~> (s.poll # "pending")
\* C08: a candidate that follows the protocol (probe answered, upgrade sent as soon as no poll is outstanding) on a session
\* that stays open completes the switch, unless it fails
L_C08_UpgradeCompletes == (s.cand = "probed" /\ s.rs = "open") ~> (s.upgraded \/ s.rs # "open" \/ InClose \/ s.cand \in {"none", "dead"})
\* C11: the handler of an accepted data request returns
L_C11_DqReturns == (s.dh # "none") ~> (s.dh = "none")
\* no livelock: the server's own steps come to an end (a flush asking itself for another flush for ever, ..)
L_NoLivelock == <>[](~ENABLED <<Internal>>_vars)

Emit == (ob.npolls = MaxPolls \/ (s.rs = "closed" /\ Quiet)) => PrintT("BEHAVIOUR " \o ToJson(hist))
=============================================================================
