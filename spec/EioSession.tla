----------------------------- MODULE EioSession -----------------------------
(* Implementation-shaped model of ONE engine.io session of zishang520/         *)
(* engine.io: socket (engine/socket.go), polling and websocket transports      *)
(* (transports/*.go), the client registry (engine/base-server.go), an upgrade  *)
(* candidate, and a protocol-conformant client.  One action per critical       *)
(* section of the Go code; multi-step code paths are several actions, so that  *)
(* TLC explores the interleavings of the handler, writer, timer and            *)
(* application goroutines.                                                     *)
(*                                                                            *)
(* Deviations (constant): behaviours the code HAD and that were repaired by    *)
(* fix: commits; with the deviation in the set the model is the old code:      *)
(*   "CloseRace"     OnClose tests readyState and stores "closed" separately   *)
(*   "PollVsClose"   a poll accepted while the transport closes is not released*)
(*   "OverlapRace"   overlap test and store of the pending poll are separate   *)
(* With Deviations = {} the model is the code as it stands now.               *)
EXTENDS Integers, Sequences, FiniteSets, TLC, Json, EioProps

CONSTANTS Msgs,        \* payload identifiers the application may send, e.g. {1,2}
          CliMsgs,     \* payload identifiers the client may submit
          MaxPolls,    \* bound on client poll requests
          MaxPings,    \* bound on server pings
          Features,    \* subset of {"close","upgrade","heartbeat","overlap","peer"}
          Deviations

VARIABLES
  rs,         \* socket.readyState: "open" | "closing" | "closed"
  cur,        \* current transport: "p" (polling) | "w" (websocket)
  wbuf,       \* socket.writeBuffer: Seq of packets
  writable,   \* [{"p","w"} -> BOOLEAN] transport.writable
  trs,        \* [{"p","w"} -> "none"|"open"|"closing"|"closed"] transport.readyState
  poll,       \* "none" | "accepting" | "pending"  (p.req of the polling transport)
  inflight,   \* [{"p","w"} -> Seq of batches] handed to `go send`, not yet written
  shouldClose,\* polling: orderly close buffered until the next write
  discarded,  \* polling transport discarded by an upgrade or Close(true)
  upgrading, upgraded,
  cand,       \* "none" | "open" (ws opened, before MaybeUpgrade) | "attached" | "probed" | "dead"
  registered, \* in the server's client table (with the close listener)
  count,      \* server.clientsCount
  closing,    \* set of reasons of OnClose calls that passed the state test and have not finished
  pingOut,    \* a ping is outstanding (deadline armed)
  \* ---- observation (what the monitor also sees)
  sentLog,    \* messages accepted by Send, in order
  rcvd,       \* messages the client received, in order
  delivered,  \* client messages handed to the application
  submitted,  \* client messages submitted while the session was open on the current transport
  nclose,     \* number of close events
  reasons,    \* reasons of the close events
  npolls, npings, stuckPolls, hist

vars == <<rs, cur, wbuf, writable, trs, poll, inflight, shouldClose, discarded, upgrading, upgraded, cand, registered, count,
          closing, pingOut, sentLog, rcvd, delivered, submitted, nclose, reasons, npolls, npings, stuckPolls, hist>>
view == <<rs, cur, wbuf, writable, trs, poll, inflight, shouldClose, discarded, upgrading, upgraded, cand, registered, count,
          closing, pingOut, sentLog, rcvd, delivered, submitted, nclose, reasons, npolls, npings, stuckPolls>>

H(a) == hist' = Append(hist, a)
Msg(m) == [ty |-> "message", id |-> m]
P(ty) == [ty |-> ty, id |-> 0]
MsgsOf(batch) == LET ms == SelectSeq(batch, LAMBDA p : p.ty = "message") IN [i \in 1..Len(ms) |-> ms[i].id]
RECURSIVE Flat(_)
Flat(bs) == IF bs = <<>> THEN <<>> ELSE Head(bs) \o Flat(Tail(bs))

\* the session right after an admitted polling handshake (open packet already answered)
Init == /\ rs = "open" /\ cur = "p" /\ wbuf = <<>> /\ writable = [t \in {"p", "w"} |-> FALSE]
        /\ trs = [t \in {"p", "w"} |-> IF t = "p" THEN "open" ELSE "none"]
        /\ poll = "none" /\ inflight = [t \in {"p", "w"} |-> <<>>] /\ shouldClose = FALSE /\ discarded = FALSE
        /\ upgrading = FALSE /\ upgraded = FALSE /\ cand = "none" /\ registered = TRUE /\ count = 1
        /\ closing = {} /\ pingOut = FALSE
        /\ sentLog = <<>> /\ rcvd = <<>> /\ delivered = <<>> /\ submitted = <<>> /\ nclose = 0 /\ reasons = <<>>
        /\ npolls = 0 /\ npings = 0 /\ stuckPolls = 0 /\ hist = <<>>

----------------------------------------------------------------------------
(* socket.flush (under flushMu): hand the whole buffer to the current transport *)
CanFlush == rs # "closed" /\ writable[cur] /\ wbuf # <<>>
FlushEff(buf, wr, infl) ==
    IF rs # "closed" /\ wr[cur] /\ buf # <<>>
    THEN [buf |-> <<>>, wr |-> [wr EXCEPT ![cur] = FALSE], infl |-> [infl EXCEPT ![cur] = Append(infl[cur], buf)]]
    ELSE [buf |-> buf, wr |-> wr, infl |-> infl]

(* transport.Close() of the polling transport (clearTransport / closeTransport): DoClose *)
\* returns the new values of the polling fields
PollDoClose(wr, infl, sc, disc) ==
    IF trs["p"] # "open" THEN [wr |-> wr, infl |-> infl, sc |-> sc, st |-> trs["p"]]
    ELSE IF wr["p"] THEN [wr |-> [wr EXCEPT !["p"] = FALSE], infl |-> [infl EXCEPT !["p"] = Append(infl["p"], <<P("close")>>)], sc |-> sc, st |-> "closed"]
    ELSE IF disc THEN [wr |-> wr, infl |-> infl, sc |-> sc, st |-> "closed"]
    ELSE [wr |-> wr, infl |-> infl, sc |-> TRUE, st |-> "closing"]

(* socket.OnClose: state swap, then (second step) clear queues, clearTransport, emit close, unregister *)
OnCloseEnter(reason) ==
    IF "CloseRace" \in Deviations
    THEN /\ rs # "closed" /\ closing' = closing \cup {reason} /\ UNCHANGED rs        \* test only; the store comes with the finish step
    ELSE /\ rs # "closed" /\ rs' = "closed" /\ closing' = closing \cup {reason}       \* Swap("closed")

OnCloseFinish(reason) ==
    /\ reason \in closing
    /\ closing' = closing \ {reason}
    /\ rs' = "closed"
    /\ wbuf' = <<>>
    /\ nclose' = nclose + 1 /\ reasons' = Append(reasons, reason)
    /\ IF registered THEN registered' = FALSE /\ count' = count - 1 ELSE UNCHANGED <<registered, count>>
    /\ pingOut' = FALSE
    /\ LET d == IF cur = "p" THEN PollDoClose(writable, inflight, shouldClose, discarded)
                ELSE [wr |-> writable, infl |-> inflight, sc |-> shouldClose, st |-> trs["p"]]
       IN /\ writable' = d.wr /\ inflight' = d.infl /\ shouldClose' = d.sc
          /\ trs' = IF cur = "p" THEN [trs EXCEPT !["p"] = d.st] ELSE [trs EXCEPT !["w"] = "closed"]
    /\ cand' = IF cand \in {"attached", "probed"} THEN "dead" ELSE cand     \* the candidate's close listener fails the upgrade
    /\ upgrading' = FALSE
    /\ H([a |-> "onclose.finish", reason |-> reason])
    /\ UNCHANGED <<cur, poll, discarded, upgraded, sentLog, rcvd, delivered, submitted, npolls, npings, stuckPolls>>

\* a cause reaches OnClose (first step)
Cause(reason, name) ==
    /\ OnCloseEnter(reason)
    /\ H([a |-> name, reason |-> reason])

----------------------------------------------------------------------------
(* application *)
AppSend(m) ==
    /\ m \notin {sentLog[i] : i \in 1..Len(sentLog)} /\ (\A k \in Msgs : k < m => k \in {sentLog[i] : i \in 1..Len(sentLog)})
    /\ rs = "open"
    /\ sentLog' = Append(sentLog, m)
    /\ LET f == FlushEff(Append(wbuf, Msg(m)), writable, inflight) IN
       wbuf' = f.buf /\ writable' = f.wr /\ inflight' = f.infl
    /\ H([a |-> "send", m |-> m])
    /\ UNCHANGED <<rs, cur, trs, poll, shouldClose, discarded, upgrading, upgraded, cand, registered, count, closing, pingOut,
                   rcvd, delivered, submitted, nclose, reasons, npolls, npings, stuckPolls>>

\* socket.Close(discard)
AppClose(discard) ==
    /\ "close" \in Features
    /\ IF discard /\ rs \in {"open", "closing"}
       THEN \* closeTransport(true): Discard, transport.Close(-> OnClose("forced close"))
            /\ discarded' = TRUE
            /\ IF cur = "p"
               THEN LET d == PollDoClose(writable, inflight, shouldClose, TRUE) IN
                    /\ trs["p"] = "open"
                    /\ writable' = d.wr /\ inflight' = d.infl /\ shouldClose' = d.sc /\ trs' = [trs EXCEPT !["p"] = "closed"]
                    /\ OnCloseEnter("forced close")
               ELSE /\ trs["w"] = "open" /\ trs' = [trs EXCEPT !["w"] = "closed"]
                    /\ UNCHANGED <<writable, inflight, shouldClose>>
                    /\ OnCloseEnter("forced close")
            /\ UNCHANGED wbuf
       ELSE /\ rs = "open" /\ ~discard
            /\ closing' = closing /\ discarded' = discarded
            /\ IF wbuf # <<>>
               THEN rs' = "closing" /\ UNCHANGED <<writable, inflight, shouldClose, trs, wbuf>>      \* waits for the drain event
               ELSE /\ IF cur = "p"
                       THEN LET d == PollDoClose(writable, inflight, shouldClose, FALSE) IN
                            /\ writable' = d.wr /\ inflight' = d.infl /\ shouldClose' = d.sc /\ trs' = [trs EXCEPT !["p"] = d.st]
                            /\ IF d.st = "closed" THEN OnCloseEnter("forced close") /\ UNCHANGED wbuf
                               ELSE rs' = "closing" /\ UNCHANGED <<closing, wbuf>>
                       ELSE /\ trs' = [trs EXCEPT !["w"] = "closed"] /\ UNCHANGED <<writable, inflight, shouldClose, wbuf>>
                            /\ OnCloseEnter("forced close")
    /\ H([a |-> "appclose", discard |-> discard])
    /\ UNCHANGED <<cur, poll, upgrading, upgraded, cand, registered, count, pingOut, sentLog, rcvd, delivered, submitted, nclose, reasons, npolls, npings, stuckPolls>>

----------------------------------------------------------------------------
(* polling transport *)
\* the client opens a poll; onPollRequest stores it (CompareAndSwap), marks the transport writable and emits ready (flush)
CliPoll ==
    /\ npolls < MaxPolls /\ registered /\ cur = "p"
    /\ npolls' = npolls + 1
    /\ IF poll # "none"
       THEN \* overlap: answered 400, transport error
            /\ "overlap" \in Features
            /\ Cause("transport error", "poll.overlap")
            /\ UNCHANGED <<poll, writable, wbuf, inflight, stuckPolls>>
       ELSE /\ poll' = "pending"
            /\ IF trs["p"] = "closed" /\ "PollVsClose" \notin Deviations
               THEN \* the transport is already closed: release the poll right away with a close packet
                    /\ inflight' = [inflight EXCEPT !["p"] = Append(inflight["p"], <<P("close")>>)]
                    /\ UNCHANGED <<writable, wbuf, stuckPolls>>
               ELSE IF trs["p"] = "closed"
               THEN /\ stuckPolls' = stuckPolls + 1 /\ writable' = [writable EXCEPT !["p"] = TRUE] /\ UNCHANGED <<wbuf, inflight>>
               ELSE LET wr1 == [writable EXCEPT !["p"] = TRUE]
                        f == FlushEff(wbuf, wr1, inflight)
                        \* pending orderly close: trigger an empty send
                        infl2 == IF f.wr["p"] /\ shouldClose THEN [f.infl EXCEPT !["p"] = Append(f.infl["p"], <<P("noop")>>)] ELSE f.infl
                        wr2 == IF f.wr["p"] /\ shouldClose THEN [f.wr EXCEPT !["p"] = FALSE] ELSE f.wr
                    IN wbuf' = f.buf /\ writable' = wr2 /\ inflight' = infl2 /\ UNCHANGED stuckPolls
            /\ H([a |-> "poll"])
            /\ UNCHANGED <<rs, closing>>
    /\ UNCHANGED <<cur, trs, shouldClose, discarded, upgrading, upgraded, cand, registered, count, pingOut, sentLog, rcvd, delivered, submitted, nclose, reasons, npings>>

\* the `go p.send(batch)` goroutine: append close if an orderly close is pending, write to the pending poll
PollWrite ==
    /\ inflight["p"] # <<>>
    /\ LET b0 == Head(inflight["p"])
           b == IF shouldClose THEN Append(b0, P("close")) ELSE b0
       IN /\ inflight' = [inflight EXCEPT !["p"] = Tail(inflight["p"])]
          /\ IF poll = "pending"
             THEN /\ poll' = "none"
                  /\ rcvd' = rcvd \o MsgsOf(b)
                  /\ IF shouldClose
                     THEN \* the buffered close goes out: shouldClose() -> onClose -> transport closed -> socket.OnClose("forced close")
                          /\ shouldClose' = FALSE /\ trs' = [trs EXCEPT !["p"] = "closed"]
                          /\ IF rs # "closed" THEN OnCloseEnter("forced close") ELSE UNCHANGED <<rs, closing>>
                     ELSE UNCHANGED <<shouldClose, trs, rs, closing>>
                  /\ H([a |-> "pollwrite", ok |-> TRUE])
             ELSE \* no pending poll: "polling write error"
                  /\ UNCHANGED <<poll, rcvd, shouldClose, trs>>
                  /\ IF rs # "closed" /\ ~discarded THEN OnCloseEnter("transport error") ELSE UNCHANGED <<rs, closing>>
                  /\ H([a |-> "pollwrite", ok |-> FALSE])
    /\ UNCHANGED <<cur, wbuf, writable, discarded, upgrading, upgraded, cand, registered, count, pingOut, sentLog, delivered, submitted,
                   nclose, reasons, npolls, npings, stuckPolls>>

\* the client submits a message (data request, or a frame once upgraded)
CliMsg(m) ==
    /\ m \notin {submitted[i] : i \in 1..Len(submitted)} /\ registered
    /\ submitted' = IF rs = "open" /\ closing = {} THEN Append(submitted, m) ELSE submitted
    /\ delivered' = IF rs = "open" THEN Append(delivered, m) ELSE delivered
    /\ rs \in {"open", "closing"}
    /\ H([a |-> "climsg", m |-> m])
    /\ UNCHANGED <<rs, cur, wbuf, writable, trs, poll, inflight, shouldClose, discarded, upgrading, upgraded, cand, registered, count,
                   closing, pingOut, sentLog, rcvd, nclose, reasons, npolls, npings, stuckPolls>>

\* the client posts a close packet (polling) or closes its socket (websocket)
PeerClose ==
    /\ "peer" \in Features /\ registered /\ trs[cur] = "open"
    /\ IF cur = "p" /\ writable["p"]
       THEN /\ inflight' = [inflight EXCEPT !["p"] = Append(inflight["p"], <<P("noop")>>)]      \* close pending poll request
            /\ writable' = [writable EXCEPT !["p"] = FALSE]
       ELSE UNCHANGED <<inflight, writable>>
    /\ trs' = [trs EXCEPT ![cur] = "closed"]
    /\ Cause("transport close", "peerclose")
    /\ UNCHANGED <<cur, wbuf, poll, shouldClose, discarded, upgrading, upgraded, cand, registered, count, pingOut, sentLog, rcvd, delivered,
                   submitted, nclose, reasons, npolls, npings, stuckPolls>>

----------------------------------------------------------------------------
(* websocket transport (after an upgrade) *)
WsWrite ==
    /\ inflight["w"] # <<>>
    /\ inflight' = [inflight EXCEPT !["w"] = Tail(inflight["w"])]
    /\ rcvd' = IF trs["w"] = "open" THEN rcvd \o MsgsOf(Head(inflight["w"])) ELSE rcvd
    /\ LET f == FlushEff(wbuf, [writable EXCEPT !["w"] = TRUE], [inflight EXCEPT !["w"] = Tail(inflight["w"])]) IN
       IF cur = "w" THEN wbuf' = f.buf /\ writable' = f.wr /\ inflight' = f.infl
       ELSE UNCHANGED wbuf /\ writable' = [writable EXCEPT !["w"] = TRUE]
    /\ H([a |-> "wswrite"])
    /\ UNCHANGED <<rs, cur, trs, poll, shouldClose, discarded, upgrading, upgraded, cand, registered, count, closing, pingOut, sentLog,
                   delivered, submitted, nclose, reasons, npolls, npings, stuckPolls>>

----------------------------------------------------------------------------
(* upgrade *)
CandOpen ==
    /\ "upgrade" \in Features /\ cand = "none" /\ registered /\ ~upgrading /\ ~upgraded
    /\ cand' = "attached" /\ upgrading' = TRUE
    /\ trs' = [trs EXCEPT !["w"] = "open"] /\ writable' = [writable EXCEPT !["w"] = TRUE]
    /\ H([a |-> "cand.open"])
    /\ UNCHANGED <<rs, cur, wbuf, poll, inflight, shouldClose, discarded, upgraded, registered, count, closing, pingOut, sentLog, rcvd,
                   delivered, submitted, nclose, reasons, npolls, npings, stuckPolls>>
CandProbe ==
    /\ cand = "attached" /\ cand' = "probed"
    /\ H([a |-> "cand.probe"])
    /\ UNCHANGED <<rs, cur, wbuf, writable, trs, poll, inflight, shouldClose, discarded, upgrading, upgraded, registered, count, closing, pingOut,
                   sentLog, rcvd, delivered, submitted, nclose, reasons, npolls, npings, stuckPolls>>
\* the 100 ms check: release a pending poll with a noop (hand-off WITHOUT flushMu)
CheckTick ==
    /\ cand = "probed" /\ cur = "p" /\ writable["p"]
    /\ writable' = [writable EXCEPT !["p"] = FALSE]
    /\ inflight' = [inflight EXCEPT !["p"] = Append(inflight["p"], <<P("noop")>>)]
    /\ H([a |-> "check"])
    /\ UNCHANGED <<rs, cur, wbuf, trs, poll, shouldClose, discarded, upgrading, upgraded, cand, registered, count, closing, pingOut, sentLog, rcvd,
                   delivered, submitted, nclose, reasons, npolls, npings, stuckPolls>>
\* the conformant client sends "upgrade" only after the probe pong and with no poll outstanding
CandUpgrade ==
    /\ cand = "probed" /\ poll = "none" /\ inflight["p"] = <<>> /\ rs # "closed" /\ closing = {}
    /\ cand' = "none" /\ upgrading' = FALSE /\ upgraded' = TRUE /\ discarded' = TRUE
    /\ cur' = "w"
    /\ LET d == PollDoClose(writable, inflight, shouldClose, TRUE)
           f == FlushEff(wbuf, d.wr, d.infl)
       IN /\ trs' = [trs EXCEPT !["p"] = "closed"] /\ shouldClose' = d.sc
          /\ \* flush on the new transport
             IF d.wr["w"] /\ wbuf # <<>>
             THEN wbuf' = <<>> /\ writable' = [d.wr EXCEPT !["w"] = FALSE] /\ inflight' = [d.infl EXCEPT !["w"] = Append(d.infl["w"], wbuf)]
             ELSE wbuf' = wbuf /\ writable' = d.wr /\ inflight' = d.infl
    /\ H([a |-> "cand.upgrade"])
    /\ UNCHANGED <<rs, poll, registered, count, closing, pingOut, sentLog, rcvd, delivered, submitted, nclose, reasons, npolls, npings, stuckPolls>>
\* the candidate fails (unexpected packet, connection lost, upgrade timeout): only the candidate is closed
CandFail ==
    /\ cand \in {"attached", "probed"}
    /\ cand' = "none" /\ upgrading' = FALSE
    /\ trs' = [trs EXCEPT !["w"] = "none"] /\ writable' = [writable EXCEPT !["w"] = FALSE]
    /\ H([a |-> "cand.fail"])
    /\ UNCHANGED <<rs, cur, wbuf, poll, inflight, shouldClose, discarded, upgraded, registered, count, closing, pingOut, sentLog, rcvd, delivered,
                   submitted, nclose, reasons, npolls, npings, stuckPolls>>

----------------------------------------------------------------------------
(* heartbeat (revision 4), time abstracted: the ping timer fires, the client answers or the deadline passes *)
PingFire ==
    /\ "heartbeat" \in Features /\ rs = "open" /\ ~pingOut /\ closing = {} /\ npings < MaxPings
    /\ pingOut' = TRUE /\ npings' = npings + 1
    /\ LET f == FlushEff(Append(wbuf, P("ping")), writable, inflight) IN wbuf' = f.buf /\ writable' = f.wr /\ inflight' = f.infl
    /\ H([a |-> "ping"])
    /\ UNCHANGED <<rs, cur, trs, poll, shouldClose, discarded, upgrading, upgraded, cand, registered, count, closing, sentLog, rcvd, delivered,
                   submitted, nclose, reasons, npolls, stuckPolls>>
Pong ==
    /\ pingOut /\ rs = "open" /\ pingOut' = FALSE
    /\ H([a |-> "pong"])
    /\ UNCHANGED <<rs, cur, wbuf, writable, trs, poll, inflight, shouldClose, discarded, upgrading, upgraded, cand, registered, count, closing,
                   sentLog, rcvd, delivered, submitted, nclose, reasons, npolls, npings, stuckPolls>>
PingTimeout ==
    /\ pingOut /\ Cause("ping timeout", "pingtimeout")
    /\ UNCHANGED <<cur, wbuf, writable, trs, poll, inflight, shouldClose, discarded, upgrading, upgraded, cand, registered, count, pingOut,
                   sentLog, rcvd, delivered, submitted, nclose, reasons, npolls, npings, stuckPolls>>

Next == \/ \E m \in Msgs : AppSend(m)
        \/ \E d \in BOOLEAN : AppClose(d)
        \/ CliPoll \/ PollWrite \/ WsWrite \/ PeerClose
        \/ \E m \in CliMsgs : CliMsg(m)
        \/ \E r \in closing : OnCloseFinish(r)
        \/ CandOpen \/ CandProbe \/ CheckTick \/ CandUpgrade \/ CandFail
        \/ PingFire \/ Pong \/ PingTimeout

Spec == Init /\ [][Next]_vars

----------------------------------------------------------------------------
IsPrefix(a, b) == Len(a) <= Len(b) /\ SubSeq(b, 1, Len(a)) = a
Quiet == closing = {} /\ inflight["p"] = <<>> /\ inflight["w"] = <<>>

\* C01: what the client has received is always a prefix of what Send accepted
C01_Prefix == IsPrefix(rcvd, sentLog)
\* C02: what the application was handed is what the client submitted while the session was open, in order
C02_Order == IsPrefix(submitted, delivered) \/ IsPrefix(delivered, submitted)
\* C03: at most one close event; the state never leaves closed
C03_OneClose == nclose <= 1
C03_ClosedIsFinal == nclose = 1 => rs = "closed"
\* C04: registry and count coincide with "not closed" whenever no close is in progress
C04_Registry == closing = {} => (registered <=> rs # "closed") /\ count = (IF registered THEN 1 ELSE 0)
C04_NoUnderflow == count >= 0
\* C11/C12: a poll accepted is not left pending once the session is closed and everything has been written
C12_PollReleased == (Quiet /\ rs = "closed" /\ ~shouldClose) => (poll = "none" \/ (stuckPolls > 0 /\ "PollVsClose" \in Deviations))
C11_NoStuckPoll == stuckPolls = 0
\* C08: the transport changes only through CandUpgrade, at most once
C08_AtMostOnce == (cur = "w") => upgraded
C08_FailureKeepsSession == (cand = "none" /\ ~upgraded /\ rs = "open") => ~upgrading

Emit == (npolls = MaxPolls \/ rs = "closed") => PrintT("BEHAVIOUR " \o ToJson(hist))
=============================================================================
