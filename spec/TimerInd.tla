------------------------------ MODULE TimerInd ------------------------------
(* The design of the re-implemented utils.Timer (spec/Timer.tla without its   *)
(* history and bounds), typed for Apalache, with an inductive invariant:      *)
(* for UNBOUNDED time, generations and numbers of Stop/Refresh calls, every   *)
(* callback run is legal (C19_Runs), an armed runtime timer is of the current *)
(* generation (C19_ArmedIsCurrent) and nothing is left armed (C19_NoLeak).    *)
(* At most MaxInfl fired-not-yet-processed goroutines are considered.         *)
(* NoGen = TRUE is the defect class of the implementation as found (Process   *)
(* does not compare generations): the induction must fail then.               *)
(* Checked with Apalache (./check C19):                                       *)
(*   Init    => IndInv           --cinit=CInit --init=Init    --inv=IndInv --length=0  *)
(*   IndInv /\ Next => IndInv'   --cinit=CInit --init=IndInit --inv=IndInv --length=1  *)
(*   IndInv  => Props            --cinit=CInit --init=IndInit --inv=Props  --length=0  *)
EXTENDS Integers, Sequences, FiniteSets

CONSTANTS
    \* @type: Str;
    Kind,
    \* @type: Int;
    P,
    \* @type: Int;
    MaxInfl,
    \* @type: Bool;
    NoGen

VARIABLES
    \* @type: Int;
    now,
    \* @type: Bool;
    created,
    \* @type: Int;
    gen,
    \* @type: Int;
    armedAt,
    \* @type: Int;
    armedG,
    \* @type: Seq(Int);
    infl,
    \* @type: Int;
    due,
    \* @type: Bool;
    cancelled,
    \* @type: Bool;
    bad

Off == -1
vars == <<now, created, gen, armedAt, armedG, infl, due, cancelled, bad>>

CInit == Kind \in {"timeout", "interval"} /\ P \in Nat /\ P >= 1 /\ MaxInfl = 3 /\ NoGen = FALSE
CInitNoGen == Kind \in {"timeout", "interval"} /\ P \in Nat /\ P >= 1 /\ MaxInfl = 3 /\ NoGen = TRUE

Init == /\ now = 0 /\ created = FALSE /\ gen = 0 /\ armedAt = Off /\ armedG = 0 /\ infl = <<>>
        /\ due = Off /\ cancelled = FALSE /\ bad = FALSE

Create == /\ ~created /\ created' = TRUE
          /\ armedAt' = now + P /\ armedG' = gen /\ due' = now + P
          /\ UNCHANGED <<now, gen, infl, cancelled, bad>>

RtFire == /\ armedAt # Off /\ armedAt <= now /\ Len(infl) < MaxInfl
          /\ armedAt' = Off /\ infl' = Append(infl, armedG)
          /\ UNCHANGED <<now, created, gen, armedG, due, cancelled, bad>>

\* a callback run at instant now is legal iff it is due exactly now and no cancel has returned
RunLegal == due # Off /\ now = due /\ ~cancelled

\* @type: (Seq(Int), Int) => Seq(Int);
Remove(q, i) == SubSeq(q, 1, i - 1) \o SubSeq(q, i + 1, Len(q))

Process(i) ==
    /\ i \in 1..Len(infl)
    /\ infl' = Remove(infl, i)
    /\ IF infl[i] = gen \/ NoGen
       THEN /\ bad' = (bad \/ ~RunLegal)
            /\ IF Kind = "interval"
               THEN armedAt' = now + P /\ armedG' = gen /\ due' = now + P /\ UNCHANGED gen
               ELSE gen' = gen + 1 /\ due' = Off /\ UNCHANGED <<armedAt, armedG>>
       ELSE UNCHANGED <<gen, armedAt, armedG, due, bad>>
    /\ UNCHANGED <<now, created, cancelled>>

Stop == /\ created
        /\ gen' = gen + 1 /\ armedAt' = Off
        /\ cancelled' = TRUE /\ due' = Off
        /\ UNCHANGED <<now, created, armedG, infl, bad>>

Refresh == /\ created
           /\ gen' = gen + 1 /\ armedAt' = now + P /\ armedG' = gen + 1
           /\ due' = now + P /\ cancelled' = FALSE
           /\ UNCHANGED <<now, created, infl, bad>>

Urgent == (armedAt # Off /\ armedAt <= now) \/ infl # <<>>

\* time passes only when nothing is runnable; a due instant that is passed is a missed run
Tick == /\ created /\ ~Urgent
        /\ now' = now + 1
        /\ bad' = (bad \/ (due # Off /\ now + 1 > due))
        /\ UNCHANGED <<created, gen, armedAt, armedG, infl, due, cancelled>>

Next == \/ Create \/ RtFire \/ Tick \/ Stop \/ Refresh
        \/ \E i \in 1..3 : Process(i)

\* ---------------------------------------------------------------- properties
C19_Runs == ~bad
C19_ArmedIsCurrent == armedAt # Off => armedG = gen
C19_NoLeak == ~Urgent => ((armedAt # Off) <=> (due # Off))

\* ---------------------------------------------------------------- the inductive invariant
Current(i) == infl[i] = gen
TypeOK == /\ now >= 0 /\ gen >= 0 /\ armedG >= 0 /\ armedG <= gen
          /\ (armedAt = Off \/ armedAt >= 0) /\ (due = Off \/ due >= 0)
          /\ Len(infl) <= MaxInfl /\ \A i \in DOMAIN infl : infl[i] >= 0 /\ infl[i] <= gen
          /\ (~created => armedAt = Off /\ due = Off /\ infl = <<>> /\ ~cancelled /\ gen = 0)
IndInv ==
    /\ TypeOK
    /\ ~bad
    \* an armed runtime timer is the current generation's, it is what the callback is due for, and it is not overdue unnoticed
    /\ armedAt # Off => (armedG = gen /\ due = armedAt /\ ~cancelled /\ armedAt >= now /\ \A i \in DOMAIN infl : ~Current(i))
    \* a fired goroutine of the current generation: its run is due exactly now, nothing else is armed, and it is the only one
    /\ \A i \in DOMAIN infl : Current(i) => (due = now /\ ~cancelled /\ armedAt = Off /\ \A j \in DOMAIN infl : Current(j) => j = i)
    \* a callback is due only if something is going to run it
    /\ due # Off => (armedAt # Off \/ \E i \in DOMAIN infl : Current(i))
    /\ cancelled => due = Off

\* the initial condition of the induction: any state satisfying the invariant (bounded shapes for the solver)
IndInit ==
    /\ now \in Nat /\ gen \in Nat /\ armedG \in Nat /\ armedAt \in Int /\ due \in Int
    /\ created \in BOOLEAN /\ cancelled \in BOOLEAN /\ bad \in BOOLEAN
    /\ \E n \in 0..3 : \E a \in Nat : \E b \in Nat : \E c \in Nat : infl = SubSeq(<<a, b, c>>, 1, n)
    /\ IndInv
Props == C19_Runs /\ C19_ArmedIsCurrent /\ C19_NoLeak
=============================================================================
