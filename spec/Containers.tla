----------------------------- MODULE Containers -----------------------------
(* Reference semantics of the containers of zishang520/engine.io (C20):       *)
(* types.Slice = a sequence, types.Set = a set, types.Map = a function,       *)
(* types.EventEmitter = per event a sequence of registrations.                *)
(* Every operator maps (abstract state, operation record) to                  *)
(* [st |-> next state, res |-> result]; results are records so that they can  *)
(* be compared with what the Go code returned.                                *)
EXTENDS Integers, Sequences, FiniteSets, TLC

NoErr == ""
R(st, err, n, xs) == [st |-> st, res |-> [err |-> err, n |-> n, xs |-> xs]]
Min2(a, b) == IF a < b THEN a ELSE b
Max2(a, b) == IF a > b THEN a ELSE b
SelectSeq2(s, T(_)) == SelectSeq(s, T)
\* index of the first element of s at or after i satisfying P, or 0
FirstIdx(s, i, P(_)) == LET S == {k \in i..Len(s) : P(s[k])} IN
                        IF S = {} THEN 0 ELSE CHOOSE k \in S : \A j \in S : k <= j
LastIdx(s, i, P(_)) == LET S == {k \in 1..i : P(s[k])} IN
                       IF S = {} THEN 0 ELSE CHOOSE k \in S : \A j \in S : k >= j
RemoveAt(s, i) == SubSeq(s, 1, i - 1) \o SubSeq(s, i + 1, Len(s))
Rev(s) == [i \in 1..Len(s) |-> s[Len(s) + 1 - i]]

\* ---------------------------------------------------------------- Slice
\* o = [op, a (sequence argument), i, j (integer arguments), rv (reverse flag)]; indices are 0-based as in Go.
\* A splice with a negative count is invalid: the contract allows an error or treating it as 0, never a panic.
SpliceRes(s, start, del, ins) ==
    IF start < 0 \/ start > Len(s) THEN R(s, "oob", 0, <<>>)
    ELSE LET d == Min2(Max2(del, 0), Len(s) - start) IN
         R(SubSeq(s, 1, start) \o ins \o SubSeq(s, start + d + 1, Len(s)), NoErr, 0, SubSeq(s, start + 1, start + d))

SliceApply(s, o) ==
    LET P(x) == x % o.i = o.j IN
    CASE o.op = "push"    -> R(s \o o.a, NoErr, Len(s) + Len(o.a), <<>>)
      [] o.op = "unshift" -> R(o.a \o s, NoErr, Len(s) + Len(o.a), <<>>)
      [] o.op = "pop"     -> IF s = <<>> THEN R(s, "empty", 0, <<>>) ELSE R(SubSeq(s, 1, Len(s) - 1), NoErr, s[Len(s)], <<>>)
      [] o.op = "shift"   -> IF s = <<>> THEN R(s, "empty", 0, <<>>) ELSE R(Tail(s), NoErr, Head(s), <<>>)
      [] o.op = "get"     -> IF o.i < 0 \/ o.i >= Len(s) THEN R(s, "oob", 0, <<>>) ELSE R(s, NoErr, s[o.i + 1], <<>>)
      [] o.op = "set"     -> IF o.i < 0 \/ o.i >= Len(s) THEN R(s, "oob", 0, <<>>) ELSE R([s EXCEPT ![o.i + 1] = o.j], NoErr, 0, <<>>)
      [] o.op = "slice"   -> IF o.i < 0 \/ o.j > Len(s) \/ o.i > o.j THEN R(s, "range", 0, <<>>) ELSE R(s, NoErr, 0, SubSeq(s, o.i + 1, o.j))
      [] o.op = "filter"  -> R(s, NoErr, 0, SelectSeq(s, P))
      [] o.op = "splice"  -> SpliceRes(s, o.i, o.j, o.a)
      [] o.op = "remove"  -> LET k == FirstIdx(s, 1, P) IN IF k = 0 THEN R(s, NoErr, 0, <<>>) ELSE R(RemoveAt(s, k), NoErr, 0, <<>>)
      [] o.op = "removeall" -> R(SelectSeq(s, LAMBDA x : ~P(x)), NoErr, 0, <<>>)
      [] o.op = "findindex" -> R(s, NoErr, FirstIdx(s, 1, P) - 1, <<>>)
      [] o.op = "range"   -> \* visits elements (reversed if rv) until one equals o.i (that one included)
                             LET t == IF o.rv THEN Rev(s) ELSE s
                                 k == FirstIdx(t, 1, LAMBDA x : x = o.i)
                             IN R(s, NoErr, 0, IF k = 0 THEN t ELSE SubSeq(t, 1, k))
      [] o.op = "rangesplice" -> \* at the first (last if rv) element equal to o.m: splice(o.i, o.j, o.a)
                             LET k == IF o.rv THEN LastIdx(s, Len(s), LAMBDA x : x = o.m) ELSE FirstIdx(s, 1, LAMBDA x : x = o.m)
                             IN IF k = 0 THEN R(s, NoErr, 0, <<>>) ELSE SpliceRes(s, o.i, o.j, o.a)
      [] o.op = "all"     -> R(s, NoErr, 0, s)
      [] o.op = "clear"   -> R(<<>>, NoErr, 0, <<>>)
      [] o.op = "allandclear" -> R(<<>>, NoErr, 0, s)
      [] o.op = "len"     -> R(s, NoErr, Len(s), <<>>)
      [] o.op = "replace" -> R(o.a, NoErr, 0, <<>>)
      [] OTHER -> R(s, "unknown-op", 0, <<>>)

\* a splice with a negative count may also be refused with an error (state unchanged)
SliceResOK(s, o, got, st2) ==
    LET want == SliceApply(s, o) IN
    \/ (got = want.res /\ st2 = want.st)
    \/ (o.op \in {"splice", "rangesplice"} /\ o.j < 0 /\ got.err # NoErr /\ got.err # "panic" /\ st2 = s)

\* ---------------------------------------------------------------- Set (of integers)
SetApply(s, o) ==
    CASE o.op = "add"    -> R(s \cup {o.a[k] : k \in 1..Len(o.a)}, NoErr, IF Len(o.a) = 0 THEN 0 ELSE 1, <<>>)
      [] o.op = "delete" -> R(s \ {o.a[k] : k \in 1..Len(o.a)}, NoErr, IF Len(o.a) = 0 THEN 0 ELSE 1, <<>>)
      [] o.op = "has"    -> R(s, NoErr, IF o.i \in s THEN 1 ELSE 0, <<>>)
      [] o.op = "len"    -> R(s, NoErr, Cardinality(s), <<>>)
      [] o.op = "clear"  -> R({}, NoErr, 1, <<>>)
      [] OTHER -> R(s, "unknown-op", 0, <<>>)

\* ---------------------------------------------------------------- Map (int -> int); absent = not in DOMAIN
MapPut(m, k, v) == [x \in DOMAIN m \cup {k} |-> IF x = k THEN v ELSE m[x]]
MapDel(m, k) == [x \in DOMAIN m \ {k} |-> m[x]]
\* res.n = value, res.err = "" ; res.xs = <<1>> iff the boolean result (ok/loaded/swapped/deleted) is true
B(b) == IF b THEN <<1>> ELSE <<>>
MapApply(m, o) ==
    LET has == o.i \in DOMAIN m
        cur == IF has THEN m[o.i] ELSE 0 IN
    CASE o.op = "store"  -> R(MapPut(m, o.i, o.j), NoErr, 0, <<>>)
      [] o.op = "load"   -> R(m, NoErr, cur, B(has))
      [] o.op = "delete" -> R(MapDel(m, o.i), NoErr, 0, <<>>)
      [] o.op = "loadorstore" -> IF has THEN R(m, NoErr, cur, B(TRUE)) ELSE R(MapPut(m, o.i, o.j), NoErr, o.j, B(FALSE))
      [] o.op = "loadanddelete" -> R(MapDel(m, o.i), NoErr, cur, B(has))
      [] o.op = "swap"   -> R(MapPut(m, o.i, o.j), NoErr, cur, B(has))
      [] o.op = "cas"    -> IF has /\ cur = o.j THEN R(MapPut(m, o.i, o.k), NoErr, 0, B(TRUE)) ELSE R(m, NoErr, 0, B(FALSE))
      [] o.op = "cad"    -> IF has /\ cur = o.j THEN R(MapDel(m, o.i), NoErr, 0, B(TRUE)) ELSE R(m, NoErr, 0, B(FALSE))
      [] o.op = "len"    -> R(m, NoErr, Cardinality(DOMAIN m), <<>>)
      [] o.op = "clear"  -> R(<<>>, NoErr, 0, <<>>)
      [] OTHER -> R(m, "unknown-op", 0, <<>>)

\* ---------------------------------------------------------------- EventEmitter (one event name)
\* registrations: sequence of [f (function id, 0 = nil), once, fired, id (registration id)]
\* A nil listener is not a listener: the contract treats On/Once(nil) as a no-op.
EmAdd(regs, fs, once, nextId) ==
    LET real == SelectSeq(fs, LAMBDA f : f # 0) IN
    regs \o [k \in 1..Len(real) |-> [f |-> real[k], once |-> once, fired |-> FALSE, id |-> nextId + k - 1]]
\* RemoveListener(f) removes exactly one registration of f (which one is left open), reports whether it did
EmRemovable(regs, f) == {k \in 1..Len(regs) : regs[k].f = f}
EmCount(regs) == Len(regs)
=============================================================================
