----------------------------- MODULE ContModel -----------------------------
(* State machine over the Slice reference semantics of Containers.tla: every  *)
(* operation of the method set with arguments from a small domain (indices    *)
(* -1..len+1, counts -1..2, inserted slices of length 0..2).  TLC explores it *)
(* exhaustively (sanity laws of the reference itself) and, in simulation      *)
(* mode, emits operation sequences that the harness replays on the real       *)
(* types.Slice; TLC then compares every recorded result with SliceApply.      *)
EXTENDS Containers, Json

CONSTANTS Vals, MaxLen, MaxOps
VARIABLES s, n, hist
vars == <<s, n, hist>>
view == <<s, n>>

Ins == {<<>>} \cup {<<a>> : a \in Vals} \cup {<<a, b>> : a \in Vals, b \in Vals}
Idx == -1..(Len(s) + 1)
Cnt == -1..2
Op(op, a, i, j, m, rv) == [op |-> op, a |-> a, i |-> i, j |-> j, k |-> 0, m |-> m, rv |-> rv]
Ops == {Op("push", a, 0, 0, 0, FALSE) : a \in Ins} \cup {Op("unshift", a, 0, 0, 0, FALSE) : a \in Ins}
       \cup {Op(o, <<>>, 0, 0, 0, FALSE) : o \in {"pop", "shift", "all", "clear", "allandclear", "len"}}
       \cup {Op("get", <<>>, i, 0, 0, FALSE) : i \in Idx}
       \cup {Op("set", <<>>, i, v, 0, FALSE) : i \in Idx, v \in Vals}
       \cup {Op("slice", <<>>, i, j, 0, FALSE) : i \in Idx, j \in Idx}
       \cup {Op(o, <<>>, 2, r, 0, FALSE) : o \in {"filter", "remove", "removeall", "findindex"}, r \in 0..1}
       \cup {Op("splice", a, i, c, 0, FALSE) : a \in Ins, i \in Idx, c \in Cnt}
       \cup {Op("range", <<>>, v, 0, 0, rv) : v \in Vals, rv \in BOOLEAN}
       \cup {Op("rangesplice", a, i, c, m, rv) : a \in {<<>>, <<0>>}, i \in Idx, c \in {-1, 0, 1}, m \in Vals, rv \in BOOLEAN}
       \cup {Op("replace", a, 0, 0, 0, FALSE) : a \in Ins}

Init == /\ s \in {<<>>} \cup {<<a>> : a \in Vals} \cup {<<a, b>> : a \in Vals, b \in Vals} /\ n = 0
        /\ hist = <<[op |-> "new", a |-> s]>>
Next == /\ n < MaxOps
        /\ \E o \in Ops : LET r == SliceApply(s, o) IN
              /\ Len(r.st) <= MaxLen
              /\ s' = r.st /\ n' = n + 1 /\ hist' = Append(hist, o)
Spec == Init /\ [][Next]_vars

\* sanity laws of the reference semantics
TypeOK == \A k \in 1..Len(s) : s[k] \in Vals
Laws == \A o \in Ops : LET r == SliceApply(s, o) IN
             /\ (r.res.err # "" => r.st = s)                                   \* a refused operation changes nothing
             /\ (o.op = "splice" /\ r.res.err = "" => Len(r.st) = Len(s) - Len(r.res.xs) + Len(o.a))
             /\ (o.op \in {"get", "slice", "filter", "findindex", "range", "all", "len"} => r.st = s)
Emit == n = MaxOps => PrintT("BEHAVIOUR " \o ToJson(hist))
=============================================================================
