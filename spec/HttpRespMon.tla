----------------------------- MODULE HttpRespMon -----------------------------
EXTENDS HttpResp
CONSTANT TraceFile
Trace == ndJsonDeserialize(TraceFile)
VARIABLES l, viol, n, done
mvars == <<l, viol, n, done, cell>>
MInit == l = 1 /\ viol = <<>> /\ n = 0 /\ done = FALSE /\ cell = 0
Judge(e) == CASE e.kind = "resp" -> RespObsOK(e.cell, e.obs)
              [] e.kind = "cookie" -> CookieObsOK(e.cell, e.obs)
              [] e.kind = "cors" -> CorsObsOK(e.cell, e.obs)
Step == LET e == Trace[l] IN
        /\ l <= Len(Trace) /\ l' = l + 1 /\ done' = FALSE /\ UNCHANGED cell
        /\ IF e.e = "hr.cell"
           THEN /\ n' = n + 1
                /\ viol' = IF Judge(e) THEN viol
                           ELSE Append(viol, [scn |-> e.scn, line |-> l, prop |-> IF e.kind = "resp" THEN "C16" ELSE "C17", clause |-> e.kind,
                                              cell |-> e.cell, obs |-> e.obs,
                                              want |-> IF e.kind = "resp" THEN [codings |-> Codings(e.cell, e.obs.rawLen), binBody |-> BinaryBody(e.cell)] ELSE [x |-> 0]])
           ELSE IF e.e \in {"bubble.panic", "wedged", "process.died"}
           THEN viol' = Append(viol, [scn |-> "", line |-> l, prop |-> "C16", clause |-> e.e]) /\ UNCHANGED n
           ELSE UNCHANGED <<viol, n>>
Finish == /\ l = Len(Trace) + 1 /\ ~done /\ done' = TRUE
          /\ PrintT("VIOLS " \o ToJson(viol)) /\ PrintT("LINES " \o ToString(Len(Trace)))
          /\ PrintT("NONCONF " \o ToJson(<<[cells |-> n]>>))
          /\ UNCHANGED <<l, viol, n, cell>>
MSpec == MInit /\ [][Step \/ Finish]_mvars
=============================================================================
