--------------------------- MODULE TimerContract ---------------------------
(* The CONTRACT of utils.Timer (property C19), stated over observable things  *)
(* only: API calls and returns, callback runs, virtual time, goroutine census.*)
(* Both the implementation-shaped model (Timer.tla) and the trace monitor     *)
(* (TimerMon.tla) use these operators, so the property is written once.       *)
EXTENDS Integers, FiniteSets

Off == -1

\* contract state: due (instant at which the callback is due, or Off),
\* cancelled (a Stop has returned and no Refresh since),
\* stopAt[c] (call instant of a Stop still in progress, or Off).

\* A callback run at instant t is legal iff it is due exactly then, no cancel
\* has returned, and no cancel still in progress was issued before the due instant.
\* owed: a run that was due at this very instant when a Refresh overwrote due
\* (the tick had already been taken; its callback may still run, at that instant only).
RunLegal(due, owed, cancelled, stopAts, t) ==
    /\ (due # Off /\ t = due) \/ (owed # Off /\ t = owed)
    /\ ~cancelled
    /\ \A a \in stopAts : a = Off \/ a >= due

\* which clause an illegal run breaks (for reporting)
RunClause(due, owed, cancelled, stopAts, t) ==
    IF cancelled \/ (\E a \in stopAts : a # Off /\ due # Off /\ a < due) THEN "run_after_cancel"
    ELSE IF due = Off THEN "run_not_due"
    ELSE IF t < due THEN "run_early" ELSE "run_late"

\* the next due instant after a run (a run that only settles an owed tick leaves due alone)
DueAfterRun(kind, period, due, owed, t) ==
    IF owed # Off /\ t = owed /\ due # t THEN due
    ELSE IF kind = "interval" THEN t + period ELSE Off
OwedAfterRefresh(due, owed, t) == IF due = t THEN t ELSE owed

\* A run has been missed if time went past the due instant with no cancel in progress.
Missed(due, stopAts, t) == due # Off /\ t > due /\ \A a \in stopAts : a = Off

\* census: timer goroutines alive at a quiescent instant with no call in progress
\* (nothing may be left behind; whether a pending timer needs a goroutine at all is the implementation's business)
CensusLegal(due, g) == g <= (IF due # Off THEN 1 ELSE 0)
=============================================================================
