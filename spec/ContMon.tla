------------------------------ MODULE ContMon ------------------------------
(* Trace monitor for C20 (sequential part): replays every recorded operation  *)
(* of the real Slice / Set / Map / EventEmitter on the reference state of     *)
(* Containers.tla and compares results and resulting contents.                *)
EXTENDS Containers, Json

CONSTANT TraceFile
Trace == ndJsonDeserialize(TraceFile)

VARIABLES l, scn, sl, st, mp, regs, nextId, frames, dup, viol, done
vars == <<l, scn, sl, st, mp, regs, nextId, frames, dup, viol, done>>

Init == /\ l = 1 /\ scn = "" /\ sl = <<>> /\ st = {} /\ mp = <<>> /\ regs = <<>> /\ nextId = 1
        /\ frames = <<>> /\ dup = FALSE /\ viol = <<>> /\ done = FALSE

V(clause, detail) == [scn |-> scn, line |-> l, clause |-> clause, detail |-> detail]
SeqToSet(s) == {s[k] : k \in 1..Len(s)}
\* multiset equality of two sequences of integers
SameBag(a, b) == /\ Len(a) = Len(b)
                 /\ \A x \in SeqToSet(a) \cup SeqToSet(b) :
                        Cardinality({k \in 1..Len(a) : a[k] = x}) = Cardinality({k \in 1..Len(b) : b[k] = x})
MapOf(keys, vals) == [k \in SeqToSet(keys) |-> vals[CHOOSE i \in 1..Len(keys) : keys[i] = k]]

\* ---- emitter helpers
RegById(id) == CHOOSE r \in SeqToSet(regs) : r.id = id
HasId(id) == \E r \in SeqToSet(regs) : r.id = id
DropId(rs, id) == SelectSeq(rs, LAMBDA r : r.id # id)
FirstOf(rs, f) == LET S == {k \in 1..Len(rs) : rs[k].f = f} IN IF S = {} THEN 0 ELSE CHOOSE k \in S : \A j \in S : k <= j

EmStepBegin(e) ==
    \* effects of a non-emit operation happen at its begin event (they are synchronous and nothing is observable in between)
    LET s == e.s IN
    CASE s.op = "on"   -> /\ regs' = EmAdd(regs, s.fs, FALSE, nextId) /\ nextId' = nextId + Len(s.fs) /\ UNCHANGED frames
      [] s.op = "once" -> /\ regs' = EmAdd(regs, s.fs, TRUE, nextId) /\ nextId' = nextId + Len(s.fs) /\ UNCHANGED frames
      [] s.op = "emit" -> \* snapshot of the registrations present when the emit starts
                          /\ frames' = Append(frames, [snap |-> regs, called |-> <<>>, k |-> 0])
                          /\ UNCHANGED <<regs, nextId>>
      [] s.op = "removeall" -> /\ regs' = <<>> /\ UNCHANGED <<frames, nextId>>
      [] OTHER -> UNCHANGED <<regs, frames, nextId>>      \* remove: decided at its end event (needs the result)

Step ==
  LET e == Trace[l] IN
  /\ l <= Len(Trace) /\ l' = l + 1 /\ done' = FALSE
  /\ scn' = IF e.e = "reset" THEN e.scn ELSE scn
  /\ CASE e.e = "sl.new" -> /\ sl' = e.a /\ UNCHANGED <<st, mp, regs, nextId, frames, dup, viol>>
       [] e.e = "sl" ->
            LET want == SliceApply(sl, e.o)
                ok == SliceResOK(sl, e.o, e.res, e.st)
                v1 == IF e.res.err = "panic" THEN <<V("panic", e.o)>>
                      ELSE IF ~ok THEN <<V("slice_result", [o |-> e.o, got |-> e.res, gotst |-> e.st, want |-> want.res, wantst |-> want.st, before |-> sl])>> ELSE <<>>
                v2 == IF e.o.op # "replace" /\ (e.aliasMod \/ e.aliasShow)
                      THEN <<V("slice_alias", [o |-> e.o, callerArrayModified |-> e.aliasMod, sharedStorage |-> e.aliasShow])>> ELSE <<>>
            IN /\ viol' = viol \o v1 \o v2
               /\ sl' = e.st          \* resynchronise on the observed contents so that one breach is reported once
               /\ UNCHANGED <<st, mp, regs, nextId, frames, dup>>
       [] e.e = "set.new" -> /\ st' = SeqToSet(e.a) /\ UNCHANGED <<sl, mp, regs, nextId, frames, dup, viol>>
       [] e.e = "set" ->
            LET want == SetApply(st, e.o)
                ok == e.res.n = want.res.n /\ e.res.err = "" /\ SeqToSet(e.st) = want.st /\ Len(e.st) = Cardinality(want.st)
            IN /\ viol' = IF ok THEN viol ELSE Append(viol, V("set_result", [o |-> e.o, got |-> e.res, gotst |-> e.st]))
               /\ st' = SeqToSet(e.st)
               /\ UNCHANGED <<sl, mp, regs, nextId, frames, dup>>
       [] e.e = "map.new" -> /\ mp' = <<>> /\ UNCHANGED <<sl, st, regs, nextId, frames, dup, viol>>
       [] e.e = "map" ->
            LET want == MapApply(mp, e.o)
                got == MapOf(e.keys, e.vals)
                ok == /\ e.res.err = "" /\ e.res.n = want.res.n /\ e.res.xs = want.res.xs
                      /\ got = want.st /\ e.nkeys = Cardinality(DOMAIN want.st) /\ e.nvals = e.nkeys
            IN /\ viol' = IF ok THEN viol ELSE Append(viol, V("map_result", [o |-> e.o, got |-> e.res, keys |-> e.keys, vals |-> e.vals]))
               /\ mp' = got
               /\ UNCHANGED <<sl, st, regs, nextId, frames, dup>>
       [] e.e = "em.new" -> /\ regs' = <<>> /\ nextId' = 1 /\ frames' = <<>> /\ dup' = e.dup
                            /\ UNCHANGED <<sl, st, mp, viol>>
       [] e.e = "em.begin" -> /\ EmStepBegin(e) /\ UNCHANGED <<sl, st, mp, dup, viol>>
       [] e.e = "em.call" ->
            \* the k-th call of the innermost emit in progress
            IF frames = <<>> THEN /\ viol' = Append(viol, V("listener_called_outside_emit", e.f))
                                  /\ UNCHANGED <<sl, st, mp, regs, nextId, frames, dup>>
            ELSE LET n == Len(frames)
                     fr == frames[n]
                 IN /\ frames' = [frames EXCEPT ![n] = [fr EXCEPT !.called = Append(fr.called, e.f), !.k = fr.k + 1]]
                    /\ UNCHANGED <<sl, st, mp, regs, nextId, dup, viol>>
       [] e.e = "em.ret" ->
            \* a once registration is removed when its listener returns
            IF frames = <<>> THEN UNCHANGED <<sl, st, mp, regs, nextId, frames, dup, viol>>
            ELSE LET fr == frames[Len(frames)]
                     E == SelectSeq(fr.snap, LAMBDA r : ~(r.once /\ r.fired))
                     id == IF fr.k >= 1 /\ fr.k <= Len(E) THEN E[fr.k].id ELSE 0
                 IN /\ regs' = IF id # 0 /\ E[fr.k].once THEN DropId(regs, id) ELSE regs
                    /\ UNCHANGED <<sl, st, mp, nextId, frames, dup, viol>>
       [] e.e = "em.end" ->
            LET s == e.s IN
            IF s.op = "emit" /\ frames # <<>>
            THEN LET fr == frames[Len(frames)]
                     E == SelectSeq(fr.snap, LAMBDA r : ~(r.once /\ r.fired))
                     Ef == [k \in 1..Len(E) |-> E[k].f]
                     ok == IF dup THEN SameBag(fr.called, Ef) ELSE fr.called = Ef
                     cnt == e.count = Len(regs) /\ e.nl = Len(regs)
                 IN /\ frames' = SubSeq(frames, 1, Len(frames) - 1)
                    /\ viol' = viol \o (IF e.res.err = "panic" THEN <<V("panic", s)>> ELSE <<>>)
                                    \o (IF ok THEN <<>> ELSE <<V("emit_calls", [called |-> fr.called, want |-> Ef, dup |-> dup])>>)
                                    \o (IF cnt THEN <<>> ELSE <<V("listener_count", [op |-> s, count |-> e.count, listeners |-> e.nl, want |-> Len(regs), dup |-> dup])>>)
                    /\ UNCHANGED <<sl, st, mp, regs, nextId, dup>>
            ELSE LET k == IF s.op = "remove" THEN FirstOf(regs, s.fs[1]) ELSE 0
                     regs2 == IF s.op = "remove" /\ k # 0 THEN RemoveAt(regs, k) ELSE regs
                     wantN == CASE s.op = "remove" -> IF k # 0 THEN 1 ELSE 0
                                [] s.op = "count" -> Len(regs)
                                [] OTHER -> e.res.n
                     okN == s.op = "removeall" \/ e.res.n = wantN
                     cnt == e.count = Len(regs2) /\ e.nl = Len(regs2)
                 IN /\ regs' = regs2
                    /\ viol' = viol \o (IF e.res.err = "panic" THEN <<V("panic", s)>> ELSE <<>>)
                                    \o (IF okN THEN <<>> ELSE <<V("emitter_result", [op |-> s, got |-> e.res.n, want |-> wantN, dup |-> dup])>>)
                                    \o (IF cnt THEN <<>> ELSE <<V("listener_count", [op |-> s, count |-> e.count, listeners |-> e.nl, want |-> Len(regs2), dup |-> dup])>>)
                    /\ UNCHANGED <<sl, st, mp, nextId, frames, dup>>
       [] e.e = "em.conc" ->
            /\ viol' = IF (\A k \in 1..Len(e.once) : e.once[k] = 1) /\ e.perm = e.emits /\ e.left = 1 THEN viol
                       ELSE Append(viol, V("once_concurrent", [once |-> e.once, perm |-> e.perm, emits |-> e.emits, left |-> e.left]))
            /\ UNCHANGED <<sl, st, mp, regs, nextId, frames, dup>>
       [] e.e = "ids" ->
            /\ viol' = viol \o (IF e.dups # 0 THEN <<V("duplicate_ids", [kind |-> e.kind, dups |-> e.dups, total |-> e.total, goroutines |-> e.goroutines])>> ELSE <<>>)
                            \o (IF e.unsafe # 0 THEN <<V("id_not_url_safe", [kind |-> e.kind, n |-> e.unsafe])>> ELSE <<>>)
            /\ UNCHANGED <<sl, st, mp, regs, nextId, frames, dup>>
       [] e.e \in {"bubble.panic", "wedged", "process.died"} ->
            /\ viol' = Append(viol, V(e.e, "")) /\ UNCHANGED <<sl, st, mp, regs, nextId, frames, dup>>
       [] OTHER -> UNCHANGED <<sl, st, mp, regs, nextId, frames, dup, viol>>

Finish == /\ l = Len(Trace) + 1 /\ ~done /\ done' = TRUE
          /\ PrintT("VIOLS " \o ToJson(viol))
          /\ PrintT("LINES " \o ToString(Len(Trace)))
          /\ UNCHANGED <<l, scn, sl, st, mp, regs, nextId, frames, dup, viol>>

Next == Step \/ Finish
Spec == Init /\ [][Next]_vars
=============================================================================
