------------------------------ MODULE HttpResp ------------------------------
(* Decision tables for what polling responses look like (C16) and for the     *)
(* cookie / initial_headers / headers / CORS policy (C17), written from the   *)
(* protocol text, RFC 9110 and the README.  One initial state per cell.       *)
EXTENDS Integers, Sequences, FiniteSets, TLC, Json

CONSTANTS Mode, Emit,
          \* C16
          Revs, B64s, Jsonps, AEs, Thresholds, Flags, Sizes, Kinds, Js, Tails,
          \* C17
          Cookies, HsTransports, Policies, Creds, ReqOrigins, Preflights, Continues, Statuses, OuterVarys
VARIABLE cell

\* ---------------------------------------------------------------- C16
\* Accept-Encoding values as token lists [coding, q0 (q=0 given)]
AETokens(ae) ==
    CASE ae = "absent"   -> <<>>
      [] ae = "gzip"     -> <<[c |-> "gzip", q0 |-> FALSE]>>
      [] ae = "deflate"  -> <<[c |-> "deflate", q0 |-> FALSE]>>
      [] ae = "br"       -> <<[c |-> "br", q0 |-> FALSE]>>
      [] ae = "zstd"     -> <<[c |-> "zstd", q0 |-> FALSE]>>
      [] ae = "several"  -> <<[c |-> "deflate", q0 |-> FALSE], [c |-> "br", q0 |-> FALSE]>>
      [] ae = "identity" -> <<[c |-> "identity", q0 |-> FALSE]>>
      [] ae = "gzipq0"   -> <<[c |-> "gzip", q0 |-> TRUE]>>
      [] ae = "mixedq"   -> <<[c |-> "br", q0 |-> FALSE], [c |-> "gzip", q0 |-> TRUE]>>
      \* RFC 9110 12.4.2: qvalue = ( "0" [ "." 0*3DIGIT ] ) / ( "1" [ "." 0*3("0") ] ): every spelling of zero refuses the coding
      [] ae = "gzipq00"     -> <<[c |-> "gzip", q0 |-> TRUE]>>                                  \* gzip;q=0.0
      [] ae = "q000deflate" -> <<[c |-> "gzip", q0 |-> TRUE], [c |-> "deflate", q0 |-> FALSE]>> \* gzip;q=0.000, deflate
      [] ae = "gzipq0dot"   -> <<[c |-> "gzip", q0 |-> TRUE]>>                                  \* gzip;q=0.
      [] ae = "gzipq0001"   -> <<[c |-> "gzip", q0 |-> FALSE]>>                                 \* gzip;q=0.001 (not zero)
      [] ae = "ows"         -> <<[c |-> "gzip", q0 |-> TRUE]>>                                  \* gzip ; q=0 (optional whitespace)
      [] ae = "upper"       -> <<[c |-> "gzip", q0 |-> FALSE]>>                                 \* GZIP (codings are case-insensitive)
      [] ae = "starq0"      -> <<[c |-> "*", q0 |-> TRUE], [c |-> "br", q0 |-> TRUE]>>          \* *;q=0, br;q=0.00: nothing is acceptable
      [] ae = "qempty"      -> <<[c |-> "gzip", q0 |-> FALSE]>>                                 \* gzip;q= (malformed: left open, must not crash)
Supported == {"gzip", "deflate", "br", "zstd"}
Named(ae) == {AETokens(ae)[i].c : i \in {k \in 1..Len(AETokens(ae)) : ~AETokens(ae)[k].q0}} \cap Supported
\* threshold: "off" = compression disabled, otherwise a byte count
\* flag: does some packet of the batch ask for compression ("default" = no options given = asks)
Asks(flag) == flag \in {"default", "true"}
\* the codings a response may carry: none is always admissible (the property says "only when")
Codings(c, size) ==
    {""} \cup (IF c.threshold # "off" /\ Asks(c.flag) /\ size >= (IF c.threshold = "zero" THEN 0 ELSE 1024) THEN Named(c.ae) ELSE {})
\* is the response body binary?  only a revision-3 payload with a binary packet sent to an XHR2 client
BinaryBody(c) == c.rev = 3 /\ ~c.b64 /\ ~c.jsonp /\ c.kind = "binary"
IsDigit(ch) == ch \in {"0", "1", "2", "3", "4", "5", "6", "7", "8", "9"}
\* the j parameter values tried (as character sequences)
JChars(j) == CASE j = "seven"  -> <<"7">>
               [] j = "12ab"   -> <<"1", "2", "a", "b">>
               [] j = "script" -> <<"<", "/", "s", "c", "r", "i", "p", "t", ">", "9">>
               [] j = "empty"  -> <<>>
               [] j = "inject" -> <<"1", ")", ";", "a", "l", "e", "r", "t", "(", "1">>
               [] j = "neg1"   -> <<"-", "1">>
               [] j = "plus7"  -> <<"+", "7">>
               [] j = "zeros"  -> <<"0", "0", "7">>
               [] j = "float"  -> <<"1", ".", "5">>
               [] j = "hex"    -> <<"0", "x", "1", "0">>
               [] j = "huge"   -> <<"9", "9", "9", "9", "9", "9", "9", "9", "9", "9", "9", "9", "9", "9", "9", "9", "9", "9", "9", "9", "9", "9">>
Digits(j) == SelectSeq(JChars(j), IsDigit)

RespObsOK(c, o) ==
    /\ o.status = 200
    /\ o.decodeOk /\ o.pkMatch /\ o.intact                 \* decodes (independent codec) to exactly the packets handed over, in order
    /\ o.clenOk                                            \* Content-Length = bytes sent
    /\ o.binBody = BinaryBody(c)                           \* Content-Type matches the nature of the body
    /\ o.cenc \in Codings(c, o.rawLen)                     \* compression only when enabled, asked for, big enough and accepted
    /\ (o.cenc # "" => o.codingOk)                         \* and then the body decodes under that coding as HTTP defines it
    /\ (c.jsonp => o.jsonpOk /\ o.jdigits = Digits(c.j) /\ o.scriptSafe)

\* ---------------------------------------------------------------- C17
\* cookie configurations: "none" | "default" (name io, path /, HttpOnly, SameSite=Lax) | "custom"
CookieName(k) == IF k = "custom" THEN "sess" ELSE "io"
\* r = [cookie, transport, step] step: "handshake" | "poll" | "post" | "poll2" | "postclose" (the data request carrying the client's
\* close packet) | "pollclose" (the pending poll released by that close)
CookieObsOK(c, o) ==
    /\ o.headersEvents = 1                                             \* the headers event fires once for every HTTP response
    /\ o.initialHeadersEvents = (IF c.step = "handshake" THEN 1 ELSE 0)  \* initial_headers once per session, on the handshake response
    /\ IF c.cookie # "none" /\ c.step = "handshake"
       THEN o.nSetCookie = 1 /\ o.cookieName = CookieName(c.cookie) /\ o.cookieIsSid /\ o.cookieAttrsOk
       ELSE o.nSetCookie = 0

\* CORS: does the policy allow the request's origin?  origins: "a" = http://a.example, "evil" = http://evil.test, "absent"
Allowed(policy, origin) ==
    CASE policy = "star"   -> TRUE
      [] policy = "string" -> TRUE                       \* a fixed origin is sent whatever the request says
      [] policy = "list"   -> origin = "a"
      [] policy = "regexp" -> origin = "a"
      [] policy = "true"   -> TRUE
      [] policy = "false"  -> FALSE
DependsOnRequest(policy) == policy \in {"string", "list", "regexp", "true", "false"}
CorsObsOK(c, o) ==
    IF c.policy = "none" THEN o.acao = "" /\ o.acac = ""
    ELSE /\ (o.acaoIsRequestOrigin => Allowed(c.policy, c.origin) /\ c.policy # "star")      \* names the origin only when allowed
         /\ (o.acao = "*" => c.policy = "star")
         /\ (c.policy = "star" => o.acao = "*")
         /\ (c.policy \in {"list", "regexp", "true"} /\ Allowed(c.policy, c.origin) /\ c.origin # "absent" => o.acaoIsRequestOrigin)
         /\ (DependsOnRequest(c.policy) => o.varyOrigin)                                      \* Vary: Origin whenever it depends on the request
         /\ o.outerKept                                                                       \* .. and what the application had put there stays
         /\ (o.acac = "true") = c.creds                                                       \* credentials header only when configured
         /\ IF c.preflight
            THEN IF c.continue THEN TRUE                                                      \* passed on: the engine answers as for any request
                 ELSE o.status = c.status /\ ~o.created                                       \* answered by the server itself, no session
            ELSE o.status = 200 /\ o.created

\* ---------------------------------------------------------------- cells
\* tail: a packet of the transport's own in the same response as the application's batch ("close": the close packet of a graceful
\* Close appended by the writer goroutine). Such packets carry no options: they ask for nothing (Asks is about the batch's flag)
RespCells == {[rev |-> r, b64 |-> b, jsonp |-> jp, ae |-> a, threshold |-> th, flag |-> f, size |-> s, kind |-> k, j |-> j, tail |-> tl] :
                r \in Revs, b \in B64s, jp \in Jsonps, a \in AEs, th \in Thresholds, f \in Flags, s \in Sizes, k \in Kinds, j \in Js, tl \in Tails}
ValidResp(c) == (c.jsonp => c.b64) /\ (~c.jsonp => c.j = "seven") /\ (c.tail # "none" => c.rev = 4 /\ ~c.jsonp /\ c.kind = "text")
\* hold: the handshaking goroutine is held inside or right after the construction of the session object (in a server-level
\* flush/drain listener, or at the yield point after the constructor) while its open packet is already on its way out on
\* another goroutine: cookie and header events must not depend on who is faster
\* other: while this handshake is held, ANOTHER client's handshake is carried out from request to response (the cookie
\* configuration is one object shared by all sessions: what one handshake prepares must not be what another one sends)
CookieCells == {[cookie |-> k, transport |-> t, step |-> st, hold |-> h, other |-> ot] : k \in Cookies, t \in HsTransports,
                   st \in {"handshake", "poll", "post", "poll2", "postclose", "pollclose"},
                   h \in {"none", "handshake.constructed", "S.flush", "S.drain"}, ot \in BOOLEAN}
ValidCookie(c) == (c.transport = "polling" \/ c.step = "handshake") /\ (c.hold # "none" => c.step = "handshake" /\ c.transport = "polling")
                  /\ (c.other => c.hold # "none")
\* step: "first" = the request is a handshake (or a preflight); "bigpoll" = a later poll of the session whose response is large
\* enough to be compressed (the transport adds headers of its own to such a response)
\* outer: a Vary header an enclosing handler of the application has already put on the response ("none", "ae" = Accept-Encoding,
\* "xorig" = X-Original-Host - a field whose name merely CONTAINS "origin" -, "lower" = origin, spelt in lower case)
CorsCells == {[policy |-> p, creds |-> cr, origin |-> o, preflight |-> pf, continue |-> cn, status |-> st, step |-> sp, outer |-> ov] :
                p \in Policies, cr \in Creds, o \in ReqOrigins, pf \in Preflights, cn \in Continues, st \in Statuses, sp \in {"first", "bigpoll"},
                ov \in OuterVarys}
ValidCors(c) == (~c.preflight => ~c.continue /\ c.status = 204) /\ (c.policy = "none" => ~c.creds /\ ~c.continue /\ c.status = 204 /\ ~c.preflight)
                /\ (c.step = "bigpoll" => ~c.preflight) /\ (c.outer # "none" => c.step = "first" /\ c.status = 204)
Init == cell \in (CASE Mode = "resp" -> {c \in RespCells : ValidResp(c)}
                    [] Mode = "cookie" -> {c \in CookieCells : ValidCookie(c)}
                    [] Mode = "cors" -> {c \in CorsCells : ValidCors(c)})
Next == UNCHANGED cell
Spec == Init /\ [][Next]_cell
TableOK == Mode = "resp" => ("" \in Codings(cell, 5000) /\ Codings(cell, 5000) \subseteq Supported \cup {""})
EmitCell == Emit => PrintT("CELL " \o ToJson(cell))
=============================================================================
