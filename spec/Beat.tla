-------------------------------- MODULE Beat --------------------------------
(* Timed model of the revision-4 heartbeat of engine/socket.go (C07): the      *)
(* ping-interval timer (schedulePing / Refresh on pong) and the ping-timeout   *)
(* timer (resetPingTimeout / ClearTimeout on pong) against a client whose pong *)
(* delay ranges over a grid that includes the deadline itself.  Time advances  *)
(* only when no timer is due (timers are never overtaken).                     *)
EXTENDS Integers, Sequences, TLC, EioProps

CONSTANTS PI, PT, MaxNow, Delays      \* Delays: set of pong delays; 99 = the client never answers
VARIABLES now, open, pingDue, deadline, pongAt, lastPing, closedAt, pongs, hist
vars == <<now, open, pingDue, deadline, pongAt, lastPing, closedAt, pongs, hist>>

Init == /\ now = 0 /\ open = TRUE /\ pingDue = PI /\ deadline = Off /\ pongAt = Off /\ lastPing = Off /\ closedAt = Off
        /\ pongs = <<>> /\ hist = <<>>

\* the interval timer fires: sendPacket(ping), resetPingTimeout
FirePing == /\ open /\ pingDue = now
            /\ pingDue' = Off /\ deadline' = now + PT /\ lastPing' = now
            /\ \E d \in Delays : pongAt' = IF d >= 99 THEN Off ELSE now + d
            /\ hist' = Append(hist, [a |-> "ping", t |-> now])
            /\ UNCHANGED <<now, open, closedAt, pongs>>
\* a pong is accepted: ClearTimeout(pingTimeoutTimer), pingIntervalTimer.Refresh()
Pong == /\ open /\ pongAt = now
        /\ pongAt' = Off /\ deadline' = Off /\ pingDue' = now + PI
        /\ pongs' = Append(pongs, [ping |-> lastPing, at |-> now])
        /\ hist' = Append(hist, [a |-> "pong", t |-> now])
        /\ UNCHANGED <<now, open, lastPing, closedAt>>
\* the timeout timer fires: OnClose("ping timeout")
Timeout == /\ open /\ deadline = now
           /\ open' = FALSE /\ closedAt' = now /\ deadline' = Off /\ pingDue' = Off /\ pongAt' = Off
           /\ hist' = Append(hist, [a |-> "timeout", t |-> now])
           /\ UNCHANGED <<now, lastPing, pongs>>
Due == (open /\ pingDue = now) \/ (open /\ pongAt = now) \/ (open /\ deadline = now)
Tick == /\ now < MaxNow /\ ~Due /\ now' = now + 1
        /\ UNCHANGED <<open, pingDue, deadline, pongAt, lastPing, closedAt, pongs, hist>>
Next == FirePing \/ Pong \/ Timeout \/ Tick
Spec == Init /\ [][Next]_vars

\* C07 over the observations, with the shared operators of EioProps
NoMissedPing == open => ~PingMissed(pingDue, now)
NoMissedTimeout == open => ~TimeoutMissed(deadline, now)
TimeoutExact == closedAt # Off => closedAt = lastPing + PT
\* a client that answered a ping strictly before its deadline was not closed for that ping
AnsweredNeverClosed == \A i \in 1..Len(pongs) : (pongs[i].at < pongs[i].ping + PT) => (closedAt = Off \/ closedAt > pongs[i].ping + PT)
PingSchedule == \A i \in 1..Len(hist) : hist[i].a = "ping" =>
                    (\/ hist[i].t = PI /\ ~\E j \in 1..(i - 1) : hist[j].a = "pong"
                     \/ \E j \in 1..(i - 1) : hist[j].a = "pong" /\ hist[i].t = hist[j].t + PI /\ ~\E k \in (j + 1)..(i - 1) : hist[k].a \in {"pong", "ping"})
=============================================================================
