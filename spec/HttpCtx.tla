------------------------------ MODULE HttpCtx ------------------------------
(* types/http-context.go: the context of ONE HTTP request, on which the       *)
(* "exactly one response" rule of the polling transport rests (C11). Several  *)
(* parties may want to answer the same request - the writer goroutine of a    *)
(* poll, polling.DoClose aborting a data request with 429, the handler's own  *)
(* acknowledgement, the router's error reply - and the client may go away at  *)
(* any time. Write takes the context's mutex, refuses a context that is done, *)
(* and marks it done WHATEVER becomes of the write (a write that fails - the  *)
(* peer is gone unnoticed, a write deadline passed - is still the one         *)
(* response of the request). A watcher goroutine emits "close" once, when the *)
(* request's context is cancelled or the response has been written; the       *)
(* handler (HandleRequest) returns when the context is done.                  *)
(*                                                                            *)
(* Deviations (constant):                                                     *)
(*   "FlushOnSuccess"  only a write that succeeds marks the context done      *)
(*                     (seeded change C11-6)                                  *)
(*   "NoGuard"         Write does not look at the done flag                   *)
(*   "EmitTwice"       the watcher emits "close" for the cancellation and for *)
(*                     the completion                                         *)
EXTENDS Integers, Sequences, FiniteSets, TLC, Json

CONSTANTS MaxOps, Deviations
VARIABLES done,        \* isDone
          nwh,         \* WriteHeader calls that reached the ResponseWriter
          cancelled,   \* the request's context.Context is cancelled (the client went away / the handler returned)
          watch,       \* the watcher goroutine: "waiting" | "emitted"
          nclose,      \* "close" events emitted
          refused,     \* writes refused ("you cannot write data repeatedly")
          nops, hist
vars == <<done, nwh, cancelled, watch, nclose, refused, nops, hist>>
view == <<done, nwh, cancelled, watch, nclose, refused, nops>>
Dev(d) == d \in Deviations
H(a) == hist' = IF "fullhist" \in Deviations THEN Append(hist, a) ELSE <<a>>

Init == /\ done = FALSE /\ nwh = 0 /\ cancelled = FALSE /\ watch = "waiting" /\ nclose = 0 /\ refused = 0 /\ nops = 0 /\ hist = <<>>

\* some party writes a response; the ResponseWriter's Write succeeds or fails
Write(ok) == /\ nops < MaxOps /\ nops' = nops + 1
             /\ IF done /\ ~Dev("NoGuard")
                THEN refused' = refused + 1 /\ UNCHANGED <<done, nwh>>
                ELSE /\ nwh' = nwh + 1 /\ refused' = refused
                     /\ done' = (IF ok \/ ~Dev("FlushOnSuccess") THEN TRUE ELSE done)
             /\ UNCHANGED <<cancelled, watch, nclose>> /\ H([a |-> "write", ok |-> ok])
\* Flush without a write (a handler that answers nothing)
Flush == /\ nops < MaxOps /\ nops' = nops + 1 /\ done' = TRUE
         /\ UNCHANGED <<nwh, cancelled, watch, nclose, refused>> /\ H([a |-> "flush"])
\* the client goes away
Cancel == /\ nops < MaxOps /\ nops' = nops + 1 /\ ~cancelled /\ cancelled' = TRUE
          /\ UNCHANGED <<done, nwh, watch, nclose, refused>> /\ H([a |-> "cancel"])
\* the watcher: select { <-ctx.Done(): Flush(); emit close   <-c.done: emit close }
Watch == /\ watch = "waiting" /\ (cancelled \/ done)
         /\ done' = TRUE /\ nclose' = nclose + 1
         /\ watch' = (IF Dev("EmitTwice") /\ nclose = 0 /\ cancelled /\ ~done THEN "waiting" ELSE "emitted")
         /\ UNCHANGED <<nwh, cancelled, refused, nops>> /\ H([a |-> "watch"])

Next == Write(TRUE) \/ Write(FALSE) \/ Flush \/ Cancel \/ Watch
Spec == Init /\ [][Next]_vars
FairSpec == Spec /\ WF_vars(Watch)

TypeOK == done \in BOOLEAN /\ cancelled \in BOOLEAN /\ watch \in {"waiting", "emitted"} /\ nwh \in Nat /\ nclose \in Nat
\* C11: never two responses to one request
C11_OneResponse == nwh <= 1
\* a response attempted is the response: whoever comes later is refused, and the handler (waiting for done) returns
C11_AttemptIsFinal == nwh >= 1 => done
\* one close event, and only for a context that is done
C11_OneCloseEvent == nclose <= 1
C11_CloseMeansDone == nclose >= 1 => done
\* the watcher has nothing to do: what can be seen from outside is stable (the replay compares in such states only)
Settled == ~(watch = "waiting" /\ (cancelled \/ done))
\* liveness: a request that was answered or given up is closed (its handler returns, its listeners hear "close")
L_Closes == (done \/ cancelled) ~> (done /\ nclose = 1)
=============================================================================
