------------------------------ MODULE Hostile ------------------------------
(* Total table of hostile client inputs (C09) and of the payload-size grid    *)
(* (C10): for every (phase, class) the set of admissible outcomes for the     *)
(* offending session.  Whatever the cell, the process keeps running, every    *)
(* handler finishes once its connection is gone, and every OTHER session is   *)
(* unaffected - those clauses are the monitor's (EioMon.tla); this module     *)
(* fixes what may happen to the offender and the size decisions.              *)
EXTENDS Integers, Sequences, FiniteSets, TLC

CONSTANTS Phases, Classes, Revs, Kinds, Limits, Mode
VARIABLE cell

\* outcomes for the offending session: it stays open, or is closed for a documented reason, or the request is refused
Outcomes == {"open", "closed:transport error", "closed:parse error", "closed:transport close", "refused:400", "refused:413"}
Admissible(c) ==
    CASE c.class \in {"wrongdir"}                               -> {"closed:transport error"}
      [] c.class \in {"early-heartbeat", "ws-control", "ws-empty", "many-packets", "huge-query", "odd-method"} -> {"open", "closed:transport error", "closed:parse error", "refused:400"}
      [] c.class \in {"ws-after-close", "post-after-close"}     -> {"closed:transport close", "closed:transport error", "refused:400"}
      [] OTHER                                                   -> Outcomes \ {"refused:413"}      \* malformed data: ignored, or that session is closed
\* C10: decision for a body / frame of the given size under the limit
SizeDecision(size, limit) == IF size > limit THEN "refuse" ELSE "deliver"

HostCells == {[phase |-> p, class |-> k, rev |-> r, kind |-> t] : p \in Phases, k \in Classes, r \in Revs, t \in Kinds}
SizeCells == {[limit |-> l, size |-> s, declared |-> d, path |-> pa] :
                l \in Limits, s \in {0, 1}, d \in BOOLEAN, pa \in {"polling", "websocket", "upgraded-websocket"}}
Init == cell \in (IF Mode = "host" THEN HostCells ELSE SizeCells)
Next == UNCHANGED cell
Spec == Init /\ [][Next]_cell
Total == Mode = "host" => Admissible(cell) # {} /\ Admissible(cell) \subseteq Outcomes
SizeOK == Mode = "size" => SizeDecision(cell.limit + cell.size, cell.limit) = (IF cell.size = 1 THEN "refuse" ELSE "deliver")
=============================================================================
