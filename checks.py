"""Per-property check functions (imported by ./check)."""
import json, os, sys, shutil
import __main__ as M

REGISTRY = {}


def prop(pid):
    def deco(fn):
        REGISTRY[pid] = fn
        return fn
    return deco


def sample_trace(evs, scn, n=25):
    return {"scenario": scn, "events": M.scenario_slice(evs, scn)[:n]}


# ----------------------------------------------------------------------- C19
TIMER_CFG = """SPECIFICATION Spec
CONSTANTS Kind = "%s" P = %d Callers = {c1, c2} MaxOps = %d MaxNow = %d Deviations = %s
VIEW view
INVARIANTS %s
CHECK_DEADLOCK FALSE
"""


@prop("C19")
def c19(ctx):
    q = ctx.quick
    ops, horizon = (4, 7) if q else (6, 9)
    inv = "C19_Runs C19_NoLeak C19_ArmedIsCurrent C19_Ind"
    behs = []
    # the design, unbounded: an inductive invariant discharged by Apalache (spec/TimerInd.tla); with the defect class of the
    # implementation as found (NoGen) the induction must fail
    apa = {}
    for name, args, want in (("base", "--cinit=CInit --init=Init --inv=IndInv --length=0", True),
                             ("step", "--cinit=CInit --init=IndInit --inv=IndInv --length=1", True),
                             ("props", "--cinit=CInit --init=IndInit --inv=Props --length=0", True),
                             ("step_NoGen", "--cinit=CInitNoGen --init=IndInit --inv=IndInv --length=1", False)):
        d = M.tlc_dir(ctx, "apa_" + name)
        rc, out = M.sh(["apalache-mc", "check"] + args.split() + ["TimerInd.tla"], cwd=d, timeout=900)
        ok = "EXITCODE: OK" in out
        err = "EXITCODE: ERROR (12)" in out
        if rc == 124 or not (ok or err):
            raise M.Inconclusive("apalache run %s did not finish (see %s)" % (name, d))
        apa[name] = ok
        shutil.rmtree(os.path.join(d, "_apalache-out"), ignore_errors=True)
        if ok != want:
            raise M.Inconclusive("apalache obligation %s: expected %s, got %s (model or invariant is wrong; see %s)" % (name, want, ok, d))
    ctx.extra["inductive_invariant_apalache"] = {"module": "TimerInd.tla", "obligations": apa,
                                                 "meaning": "Init => IndInv; IndInv /\\ Next => IndInv'; IndInv => C19_Runs /\\ C19_ArmedIsCurrent /\\ C19_NoLeak, "
                                                            "for unbounded time, generations, period and numbers of calls (at most 3 fired goroutines in flight); "
                                                            "the step must FAIL with NoGen"}
    # the invariants are not vacuous: the defect class of the implementation as found (a tick that fired before a Stop or
    # Refresh still acts) and a Stop that leaves the runtime timer armed must violate them
    sens = {}
    for kind, dev, want in (("interval", "NoGen", "C19_Runs"), ("timeout", "NoGen", "C19_Runs"), ("interval", "StopKeepsArmed", "C19_NoLeak")):
        ok = M.tlc_expect_violation(ctx, "Timer", TIMER_CFG % (kind, 2, 4, 7, '{"%s"}' % dev, want), "dev_%s_%s" % (dev, kind), want)
        sens["%s/%s" % (dev, kind)] = ok
        if ok and ctx.last_counterexample:
            b = ctx.last_counterexample
            for a in b:
                if a["a"] == "create":
                    a["p"] = 2
            behs.append(b)
    ctx.extra["model_deviations_detected"] = sens
    if not all(sens.values()):
        raise M.Inconclusive("Timer.tla is not sensitive to %s" % [k for k, v in sens.items() if not v])
    for kind, dev, name in (("timeout", "{}", "timeout"), ("interval", "{}", "interval")):
        for p in ((2,) if q else (2, 3)):
            M.tlc_model(ctx, "Timer", TIMER_CFG % (kind, p, ops, horizon, dev, inv), "%s_p%d" % (name, p),
                        coverage=not q)
            bs = M.tlc_simulate(ctx, "Timer", TIMER_CFG % (kind, p, ops, horizon, dev, "Emit"), "sim_%s_p%d" % (name, p),
                                num=150 if q else 1500, depth=40, seed=ctx.seed)
            for b in bs:
                for a in b:
                    if a["a"] == "create":
                        a["p"] = p
            behs += bs
    if not q:
        behs = behs[:4000]
    ctx.extra["behaviours_replayed"] = len(behs)
    trace, summ = M.go_family(ctx, "timer", behaviours=behs, nrandom=150 if q else 3000)
    viols, lines = M.tlc_trace(ctx, "TimerMon", 'SPECIFICATION Spec\nCONSTANT TraceFile = "trace.ndjson"\nCHECK_DEADLOCK FALSE\n',
                               "timer", trace)
    evs = M.read_trace(trace)
    ctx.traces = summ.get("stats", {}).get("scenarios", 0)
    ctx.events = lines
    scns = [e["scn"] for e in evs if e["e"] == "reset"]
    ctx.samples = [{"tlc_behaviour": behs[0] if behs else None}] + [sample_trace(evs, s) for s in scns[:1] + scns[-1:]]
    ctx.extra["distinct_nontrivial"] = len({json.dumps([(e["e"], e.get("c"), e.get("point")) for e in M.scenario_slice(evs, s)
                                                        if e["e"] not in ("census", "reset")]) for s in scns})
    M.classify(ctx, viols)
    ctx.assumptions = ["time.AfterFunc semantics of the Go runtime (Stop prevents a timer that has not fired from firing)",
                       "callback start is identified with the callback's first statement; the window between a runtime timer "
                       "firing and its goroutine reaching the timer's mutex is stepped through the yield point timer.fired",
                       "a runtime timer left armed after the final cancellation is observed by its goroutine showing up at the yield point"]
    return M.finish(ctx, rule="one trace = one bubble run of utils.Timer (TLC behaviour of Timer.tla replayed through the "
                    "verif gates, or a seeded random script); distinct = distinct event-name sequences",
                    evs=evs)


# ------------------------------------------------------------- C13 / C14 / C15
WT_LENS = "{0,1,125,126,127,4095,4096,4097,8209,8210,8211,8229,65535,65536,65537,70000}"
WT_LENS_SMALL = "{0,1,15,16,17,31,32,33,34,49,50,51,52,125,126,300}"
WT_DEV_ASIS = "{}"   # deviations of the code as it stands (both repaired by fix: commits, see known-findings.json)


def wt_cfg(dev, lens, geoms, maxchunks, inv, emit="FALSE"):
    return ("SPECIFICATION Spec\nCONSTANTS Deviations = %s Lens = %s Geoms = %s MaxChunks = %d Emit = %s\nINVARIANTS %s\n"
            % (dev, lens, geoms, maxchunks, emit, inv))


def wt_cells(ctx, dev, lens, geoms, maxchunks, name):
    d = M.tlc_dir(ctx, "c_" + name)
    M.write_cfg(d, name, wt_cfg(dev, lens, geoms, maxchunks, "EmitCell", "TRUE"))
    rc, out = M.sh(["tlc", "-workers", "1", "-metadir", os.path.join(d, "meta"), "-config", name + ".cfg", "WTFrame.tla"],
                   cwd=d, timeout=600, env={"JAVA_TOOL_OPTIONS": "-Xss512m"})
    cells = []
    for line in out.splitlines():
        line = line.strip()
        if line.startswith('"CELL '):
            cells.append(json.loads(json.loads(line)[5:]))
    if not cells:
        raise M.Inconclusive("no cells from TLC (%s)" % d)
    return cells


def wt_models(ctx):
    q = ctx.quick
    mc = 2
    for dev, inv, nm in (("{}", "Design_RoundTrip AsIs_HeaderExact", "design"),
                         (WT_DEV_ASIS, "AsIs_RoundTrip AsIs_HeaderExact", "asis")):
        if dev == "{}" and nm == "asis":
            continue
        M.tlc_model(ctx, "WTFrame", wt_cfg(dev, WT_LENS, "{4096}", mc, inv), "wt_%s_4096" % nm, extra=[], timeout=900)
        M.tlc_model(ctx, "WTFrame", wt_cfg(dev, WT_LENS_SMALL, "{16, 1}", mc, inv), "wt_%s_small" % nm, timeout=900)


def wt_writer_run(ctx):
    q = ctx.quick
    cells = wt_cells(ctx, WT_DEV_ASIS, WT_LENS, "{4096}", 1 if q else 2, "big")
    cells += wt_cells(ctx, WT_DEV_ASIS, WT_LENS_SMALL, "{16, 1}", 1 if q else 2, "small")
    if q:
        # quick: all single-chunk cells plus a seeded sample of two-chunk cells
        import random
        rnd = random.Random(ctx.seed)
        two = wt_cells(ctx, WT_DEV_ASIS, "{0,1,126,4096,4097,8211,65536}", "{4096}", 2, "two")
        two = [c for c in two if len(c["cell"]["chunks"]) == 2]
        rnd.shuffle(two)
        cells += two[:300]
    elif len(cells) > 9000:
        import random
        random.Random(ctx.seed).shuffle(cells)
        cells = cells[:9000]
    ctx.extra["cells_replayed"] = len(cells)
    trace, summ = M.go_family(ctx, "wtw", behaviours=[[c] for c in cells], nrandom=100 if q else 1500, timeout=2400)
    return trace, summ, cells


MON_WT_CFG = ('SPECIFICATION MSpec\nCONSTANTS TraceFile = "trace.ndjson" Deviations = %s Lens = {0} Geoms = {16} MaxChunks = 1 Emit = FALSE\n'
              'CHECK_DEADLOCK FALSE\n' % WT_DEV_ASIS)


def wt_common(ctx, props, writer=True, reader=True):
    viols, evs_all = [], []
    if writer:
        wt_models(ctx)
        trace, summ, cells = wt_writer_run(ctx)
        v, lines = M.tlc_trace(ctx, "WTMon", MON_WT_CFG, "wtw", trace, timeout=2400)
        ctx.nonconf += len(ctx.last_nonconf)
        if ctx.last_nonconf:
            print("NONCONFORMANCE model=WTFrame.tla scenarios=%s" % [n["scn"] for n in ctx.last_nonconf][:5])
        viols += v
        evs = M.read_trace(trace)
        evs_all += evs
        ctx.traces += summ.get("stats", {}).get("scenarios", 0)
        ctx.events += lines
        ctx.samples.append({"tlc_cell": cells[0]})
        ctx.samples.append({k: (v if k != "wire" else "...") for k, v in next(e for e in evs if e["e"] == "wt.seq").items()})
    if reader:
        if not writer:
            # the reader contract uses the reference codec; model-check the codec cells once for the evidence
            M.tlc_model(ctx, "WTFrame", wt_cfg("{}", WT_LENS, "{4096}", 1, "Design_RoundTrip AsIs_HeaderExact"), "wt_codec")
        trace, summ = M.go_family(ctx, "wtr", nrandom=300 if ctx.quick else 6000, timeout=2400)
        v, lines = M.tlc_trace(ctx, "WTMon", MON_WT_CFG, "wtr", trace, timeout=2400)
        viols += v
        evs = M.read_trace(trace)
        evs_all += evs
        ctx.traces += summ.get("stats", {}).get("scenarios", 0)
        ctx.events += lines
        s = next(e for e in evs if e["e"] == "rd.case")
        ctx.samples.append(s)
    mine = [v for v in viols if v.get("prop") in props]
    ctx.extra["breaches_attributed_to_other_properties"] = len(viols) - len(mine)
    M.classify(ctx, mine)
    return evs_all


@prop("C13")
def c13(ctx):
    evs = wt_common(ctx, {"C13"}, writer=True, reader=False)
    ctx.assumptions = ["payload byte equality is decided in Go (bytes.Equal) and logged as a boolean; lengths, kinds, frame counts and header bytes are judged in TLA+",
                       "buffer geometries explored: write buffer 4096 (default), 16 and 1; pool off / on / shared by two connections"]
    return M.finish(ctx, rule="one trace = one connection executing 1-4 write scripts (cells enumerated by TLC from WTFrame.tla) read back under "
                    "whole/1-byte/header-cut/random fragmentation with two read-buffer sizes", evs=evs)


@prop("C14")
def c14(ctx):
    evs = wt_common(ctx, {"C14"}, writer=True, reader=True)
    ctx.assumptions = ["header bytes are compared in TLA+ with Header(kind,len) written from the protocol text; payload equality in Go"]
    return M.finish(ctx, rule="encoder: one trace per write script, captured wire bytes split by an independent splitter; decoder: well-formed "
                    "frame streams incl. non-minimal length forms fed to the reader", evs=evs)


@prop("C15")
def c15(ctx):
    evs = wt_common(ctx, {"C15"}, writer=False, reader=True)
    ctx.assumptions = ["a negative (top bit set) 64-bit length must be refused with the limit error; closing the session is demanded only for representable lengths above the limit",
                       "the documented 1000th-call panic is excluded (at most 4 failing calls per stream)",
                       "no coverage-guided fuzzing: streams are well-formed, truncated at every offset, mutated, random, huge-length and error-injected"]
    return M.finish(ctx, rule="one trace = one byte stream fed to a real Conn (with a real webtransport.Session over the fake HTTP/3 layer when a "
                    "read limit is set) and consumed with one of 4 patterns x 3 fragmentations", evs=evs)


# ----------------------------------------------------------------------- C20
CM_CFG = "SPECIFICATION Spec\nCONSTANTS Vals = {0, 1, 2} MaxLen = %d MaxOps = %d\nVIEW view\nINVARIANTS %s\nCHECK_DEADLOCK FALSE\n"
LIN_CFG = 'SPECIFICATION Spec\nCONSTANT TraceFile = "trace.ndjson"\nCONSTRAINT HighWater\nPOSTCONDITION Report\nCHECK_DEADLOCK FALSE\n'


def lin_validate(ctx, trace_path, name):
    """TLC linearization search over a file of concurrent histories. Returns list of non-linearizable scenarios."""
    bad = []
    evs = M.read_trace(trace_path)
    for attempt in range(6):
        d = M.tlc_dir(ctx, "lin_%s_%d" % (name, attempt))
        with open(os.path.join(d, "trace.ndjson"), "w") as f:
            for e in evs:
                f.write(json.dumps(e) + "\n")
        M.write_cfg(d, "lin", LIN_CFG)
        rc, out = M.sh(["tlc", "-workers", "1", "-metadir", os.path.join(d, "meta"), "-config", "lin.cfg", "ContLin.tla"], cwd=d,
                       timeout=1200, env={"JAVA_TOOL_OPTIONS": "-Dtlc2.tool.queue.IStateQueue=StateDeque -Xss512m"})
        import re
        m = re.search(r'HIGHWATER (\d+) OF (\d+)', out)
        r = M.parse_tlc(out)
        if not m:
            raise M.Inconclusive("linearization search did not finish (%s)" % d)
        ctx.extra["lin_states"] = ctx.extra.get("lin_states", 0) + r["distinct"]
        hw, tot = int(m.group(1)), int(m.group(2))
        if hw >= tot:
            return bad
        # the history containing line hw cannot be explained: report it, drop it, validate the rest
        scn, start, end = None, 0, len(evs)
        for i, e in enumerate(evs):
            if e["e"] == "reset":
                if i < hw:
                    scn, start = e["scn"], i
                elif end == len(evs):
                    end = i
        bad.append({"scn": scn, "clause": "not_linearizable", "line": hw, "detail": evs[hw - 1] if hw - 1 < len(evs) else None})
        evs = evs[:start] + evs[end:]
    return bad  # many histories cannot be explained: report what was found


@prop("C20")
def c20(ctx):
    q = ctx.quick
    M.tlc_model(ctx, "ContModel", CM_CFG % (4, 3, "TypeOK Laws"), "slice_ref")
    behs = M.tlc_simulate(ctx, "ContModel", CM_CFG % (5, 8, "Emit"), "slice_sim", num=3 if q else 30, depth=10, seed=ctx.seed,
                          cap=400 if q else 6000)
    ctx.extra["behaviours_replayed"] = len(behs)
    trace, summ = M.go_family(ctx, "cont", behaviours=behs, nrandom=60 if q else 800)
    viols, lines = M.tlc_trace(ctx, "ContMon", 'SPECIFICATION Spec\nCONSTANT TraceFile = "trace.ndjson"\nCHECK_DEADLOCK FALSE\n', "cont", trace)
    evs = M.read_trace(trace)
    ctx.traces += summ.get("stats", {}).get("scenarios", 0)
    ctx.events += lines
    ltrace, lsumm = M.go_family(ctx, "lin", nrandom=60 if q else 700)
    bad = lin_validate(ctx, ltrace, "lin")
    levs = M.read_trace(ltrace)
    nlin = lsumm.get("stats", {}).get("scenarios", 0)
    ctx.traces += nlin
    ctx.events += len(levs)
    ctx.extra["concurrent_histories"] = nlin
    ctx.extra["concurrent_operations"] = sum(1 for e in levs if e["e"] == "inv")
    for v in viols:
        v["sig"] = c20_sig(v)
    M.classify(ctx, viols + bad)
    M.classify(ctx, race_run(ctx))      # the table's container at full speed under the real scheduler (family race)
    scns = [e["scn"] for e in evs if e["e"] == "reset"]
    ctx.samples = [{"tlc_behaviour": behs[0] if behs else None}, sample_trace(evs, scns[0], 8), sample_trace(levs, levs[0]["scn"], 14)]
    ctx.assumptions = ["Map.Len/Keys/Values/Range are excluded from concurrent histories (sync.Map's Range is documented not to be a snapshot); they are checked sequentially",
                       "the order in which RemoveListener picks among several registrations of the SAME function is left open (only counts and call multisets are checked then)",
                       "nested Emit of the same event from inside a listener is outside the contract",
                       "a listener is identified by its code pointer, as the implementation does (distinct function literals are used)"]
    return M.finish(ctx, rule="sequential: one trace = one script on a fresh container, every result compared by TLC with Containers.tla; "
                    "concurrent: one trace = one inv/ret history of 2-8 goroutines, accepted iff TLC finds a linearization",
                    evs=evs + levs)


def c20_sig(v):
    d = v.get("detail")
    c = v.get("clause")
    if c == "panic" and isinstance(d, dict):
        return "panic:" + str(d.get("op"))
    if c == "slice_alias" and isinstance(d, dict):
        return "alias:" + str(d.get("o", {}).get("op"))
    if c in ("listener_count", "emitter_result", "emit_calls") and isinstance(d, dict):
        return c + (":dup" if d.get("dup") else "")
    if c == "duplicate_ids" and isinstance(d, dict):
        return "dups:%s:%s" % (d.get("kind"), "concurrent" if d.get("goroutines", 1) > 1 else "sequential")
    return c


# ------------------------------------------------------------------ engine-level properties
ES_INV = ("TypeOK C01_Prefix C01_NothingLost C01_NoStuckBuffer C02_Order C03_OneClose C03_ClosedIsFinal C03_NoSpuriousError C04_Registry C04_NoUnderflow "
          "C12_PollReleased C11_NoStuckPoll C12_BufferedFirst C12_NoLostWakeup C08_AtMostOnce C08_FailureKeepsSession C08_ProbeFirst C07_DeadlineArmed "
          "C02_DqAll C02_DqPrefix C11_DqOneResponse C11_OkAfterAll C11_SlotFree")


def dreq_consts(feats):
    """feature "dreq" (data requests as goroutines of their own): payload set and bound ride on marker features"""
    if '"dreq"' not in feats:
        return 'PayloadSet = "none" MaxPosts = 0'
    return 'PayloadSet = "%s" MaxPosts = %d' % ("t" if '"pt"' in feats else "q", 3 if '"posts3"' in feats else 2)


def es_cfg(msgs, climsgs, polls, pings, feats, inv=ES_INV, dev="{}", props=True):
    return ("SPECIFICATION Spec\nCONSTANTS Msgs = %s CliMsgs = %s MaxPolls = %d MaxPings = %d Features = %s Deviations = %s\n%s\n"
            "VIEW view\nINVARIANTS %s\n%sCHECK_DEADLOCK FALSE\n"
            % (msgs, climsgs, polls, pings, feats, dev, dreq_consts(feats), inv, "PROPERTY C03_SilentAfterClose\n" if props and inv == ES_INV else ""))


# feature sets: window = the flush listener window (buffer taken, not yet handed over) is a separate step;
# closewin = the close event's listeners are a separate step; late = an upgrade packet may arrive on a closed session
ES_FAMS = {
    # family: (quick model config, thorough model config)
    "flow": (("{1,2,3}", "{7}", 3, 0, '{"upgrade","window","dwindow"}'), ("{1,2,3}", "{7,8}", 5, 1, '{"upgrade","window","dwindow","heartbeat"}')),
    "life": (("{1,2}", "{7}", 3, 1, '{"close","peer","heartbeat","overlap","closewin","cwindow"}'),
             ("{1,2,3}", "{7,8}", 4, 2, '{"close","peer","heartbeat","overlap","closewin","window","abort","ctimeout","cwindow"}')),
    "upg": (("{1,2}", "{7}", 3, 1, '{"upgrade","close","peer","heartbeat","window","late","closewin"}'),
            ("{1,2,3}", "{7}", 4, 1, '{"upgrade","close","peer","heartbeat","window","late","closewin","abort"}')),
    "poll": (("{1,2}", "{7}", 4, 0, '{"overlap","peer","close","abort","window","dwindow","cwindow"}'),
             ("{1,2,3}", "{7,8}", 5, 1, '{"overlap","peer","close","heartbeat","abort","window","closewin","ctimeout","cwindow"}')),
    # data requests as goroutines of their own (accept | packet by packet | end), against polls, closes, heartbeat, upgrade
    "dreq": (("{1}", "{7,8}", 2, 1, '{"dreq","close","overlap","abort","closewin","heartbeat"}'),
             ("{1}", "{7,8,9}", 2, 1, '{"dreq","pt","posts3","close","overlap","abort","closewin","heartbeat","ctimeout"}')),
}
# every deviation must make TLC find its invariant violated (the invariants are not vacuous, the model is sensitive)
ES_DEVS = [
    ("CloseRace", "C03_OneClose", '{"close","peer","heartbeat","closewin"}'),
    ("PollVsClose", "C11_NoStuckPoll", '{"close","peer","closewin"}'),
    ("StaleTransport\",\"CheckNoLock", "C01_NothingLost", '{"upgrade","window"}'),
    ("LateClear", "C01_NothingLost", '{"window"}'),
    ("FlushForgets", "C01_NoStuckBuffer", '{"dwindow"}'),
    ("DrainNoRecheck", "C12_BufferedFirst", '{"close","window"}'),
    ("UpgTailEager", "C12_BufferedFirst", '{"upgrade","close","window"}'),
    ("UpgradeOnClosed", "C03_SilentAfterClose", '{"upgrade","close","peer","late","closewin"}'),
    ("CheckNoLock", "C03_NoSpuriousError", '{"upgrade","window"}'),
    ("UpgradeNoProbe", "C08_ProbeFirst", '{"upgrade"}'),
    ("WsCloseCutsSend", "C12_BufferedFirst", '{"upgrade","close","window"}'),
    ("CloseSkipsTaken", "C12_BufferedFirst", '{"close","window"}'),
    ("CloseMissesDrain", "C12_NoLostWakeup", '{"close","window","dwindow","cwindow"}'),
    ("DreqAbortIsError", "C03_NoSpuriousError", '{"dreq","close","closewin"}'),
    ("OkFirst", "C11_OkAfterAll", '{"dreq","close"}'),
    ("DreqKeepsSlot", "C11_SlotFree", '{"dreq","close"}'),
]
MON_EIO_CFG = 'SPECIFICATION Spec\nCONSTANT TraceFile = "trace.ndjson"\nCHECK_DEADLOCK FALSE\n'


# transition cover: every transition of a bounded instance of EioSession.tla is replayed into the real server, and after
# every step the projection of the model state is compared with the real session (tools/tcover.py, EioMon "model.expect")
ES_COVER = {
    # family: (quick instance, thorough instance) = (Msgs, CliMsgs, MaxPolls, MaxPings, Features)
    "flow": (("{1,2}", "{7}", 3, 0, '{"upgrade","window","dwindow","lastonly"}'),
             ("{1,2}", "{7}", 4, 0, '{"upgrade","window","dwindow","lastonly"}')),
    "life": (("{1}", "{7}", 2, 1, '{"close","peer","heartbeat","overlap","closewin","cwindow","lastonly"}'),
             ("{1,2}", "{7}", 3, 1, '{"close","peer","heartbeat","overlap","closewin","cwindow","lastonly"}')),
    "upg": (("{1}", "{}", 2, 0, '{"upgrade","close","window","late","closewin","lastonly"}'),
            ("{1}", "{7}", 3, 0, '{"upgrade","close","window","late","closewin","lastonly"}')),
    "poll": (("{1}", "{}", 3, 0, '{"overlap","peer","close","abort","window","dwindow","cwindow","lastonly"}'),
             ("{1,2}", "{7}", 3, 0, '{"overlap","peer","close","abort","window","dwindow","cwindow","lastonly"}')),
    "dreq": (("{}", "{7,8}", 0, 0, '{"dreq","close","overlap","abort","closewin","lastonly"}'),
             ("{}", "{7,8}", 1, 0, '{"dreq","close","overlap","abort","closewin","lastonly"}')),
}


def es_cover(ctx, fam):
    c = ES_COVER[fam][0 if ctx.quick else 1]
    d = M.tlc_dir(ctx, "g_" + fam)
    cfg = es_cfg(*c, inv="TypeOK", props=False).replace("VIEW view\n", "")
    M.write_cfg(d, "g", cfg)
    rc, out = M.sh(["tlc", "-workers", "8", "-metadir", os.path.join(d, "meta"), "-dump", "dot,actionlabels", os.path.join(d, "graph"),
                    "-config", "g.cfg", "EioSession.tla"], cwd=d, timeout=2400)
    if rc == 124 or "Model checking completed. No error" not in out:
        raise M.Inconclusive("state graph dump for the transition cover of %s failed (see %s)" % (fam, d))
    outp = os.path.join(ctx.work, "cover_%s.json" % fam)
    rc, o2 = M.sh([sys.executable, os.path.join(M.ROOT, "tools", "tcover.py"), os.path.join(d, "graph.dot"), outp, "45"], timeout=2400)
    if rc != 0:
        raise M.Inconclusive("tcover failed for %s: %s" % (fam, o2[-500:]))
    info = json.loads(o2.strip().splitlines()[-1])
    os.remove(os.path.join(d, "graph.dot"))
    shutil.rmtree(os.path.join(d, "meta"), ignore_errors=True)
    ctx.extra.setdefault("transition_cover", {})[fam] = info
    ctx.states += info["states"]
    ctx.transitions += info["transitions"]
    return json.load(open(outp))


def es_sensitivity(ctx):
    """Deviations: the behaviours the code had (or a regression would bring back) must violate their invariant in the model."""
    out = {}
    cex = []
    for dev, inv, feats in ES_DEVS:
        isprop = inv == "C03_SilentAfterClose"
        cfg = es_cfg("{1,2}", "{7}", 3, 1, feats, inv="TypeOK" if isprop else inv, dev='{"%s"}' % dev, props=False)
        if isprop:
            cfg = cfg.replace("CHECK_DEADLOCK", "PROPERTY C03_SilentAfterClose\nCHECK_DEADLOCK")
        out[dev] = M.tlc_expect_violation(ctx, "EioSession", cfg, "dev_" + dev.replace('","', "_"), inv)
        if out[dev] and ctx.last_counterexample:
            cex.append(ctx.last_counterexample)
    ctx.extra["model_deviations_detected"] = out
    ctx.devbehs = cex
    bad = [d for d, ok in out.items() if not ok]
    if bad:
        raise M.Inconclusive("model is not sensitive to deviation(s) %s" % bad)


# liveness: the "eventually" halves of the properties (EioSession.tla FairSpec: one weak-fairness condition per server goroutine
# and timer, a client that keeps polling, strong fairness for the candidate's upgrade packet), checked by TLC on instances
# without history (feature nohist, no VIEW); every liveness property has a deviation that must violate it
ES_LIVE_ALL = "L_C01_Delivered L_C08_UpgradeCompletes L_C11_PollAnswered L_C12_ClosingCloses L_C11_DqReturns L_NoLivelock"
ES_LIVE = {
    # name: (quick (msgs, polls, features), thorough (msgs, polls, features))
    "life": (("{1,2}", 3, '{"close","peer","heartbeat","overlap","closewin","cwindow","ctimeout","nohist"}'),
             ("{1,2}", 4, '{"overlap","peer","close","abort","window","dwindow","cwindow","ctimeout","heartbeat","nohist"}')),
    "upg": (("{1}", 3, '{"upgrade","window","close","heartbeat","ctimeout","closewin","late","nohist"}'),
            ("{1,2}", 3, '{"upgrade","window","close","heartbeat","ctimeout","closewin","late","nohist"}')),
    "dreq": (("{}", 1, '{"dreq","close","overlap","abort","closewin","ctimeout","nohist"}'),
             ("{1}", 2, '{"dreq","close","overlap","abort","closewin","ctimeout","nohist"}')),
}
ES_LIVE_DEVS = [
    ("TimeoutOnlyOpen", "L_C12_ClosingCloses", 2, '{"close","heartbeat","ctimeout","window","nohist"}'),
    ("CloseMissesDrain", "L_C12_ClosingCloses", 3, '{"close","ctimeout","window","cwindow","dwindow","nohist"}'),
    ("FlushForgets", "L_C01_Delivered", 3, '{"window","dwindow","nohist"}'),
    ("PollVsClose", "L_C11_PollAnswered", 3, '{"close","peer","closewin","nohist"}'),
    ("NoCheck", "L_C08_UpgradeCompletes", 3, '{"upgrade","nohist"}'),
]


def live_cfg(msgs, polls, feats, props, dev="{}"):
    return ("SPECIFICATION FairSpec\nCONSTANTS Msgs = %s CliMsgs = %s MaxPolls = %d MaxPings = 1 Features = %s Deviations = %s\n%s\n"
            "INVARIANTS TypeOK\nPROPERTIES %s\nCHECK_DEADLOCK FALSE\n"
            % (msgs, "{7,8}" if '"dreq"' in feats else "{}", polls, feats, dev, dreq_consts(feats), props))


def es_liveness(ctx):
    out = {}
    for dev, prop, polls, feats in ES_LIVE_DEVS:
        out["%s/%s" % (dev, prop)] = M.tlc_expect_violation(ctx, "EioSession", live_cfg("{1,2}", polls, feats, prop, '{"%s"}' % dev),
                                                           "live_dev_" + dev, prop, workers=4)
    ctx.extra["liveness_deviations_detected"] = out
    bad = [k for k, ok in out.items() if not ok]
    if bad:
        raise M.Inconclusive("the liveness properties are not sensitive to %s" % bad)
    for name, (qc, tc) in ES_LIVE.items():
        msgs, polls, feats = qc if ctx.quick else tc
        M.tlc_model(ctx, "EioSession", live_cfg(msgs, polls, feats, ES_LIVE_ALL), "live_" + name, timeout=2400)
    ctx.extra["liveness_properties_checked"] = ES_LIVE_ALL.split()


FAULTS = {"post.overlap", "poll.overlap", "poll.abort", "post.abort", "peerclose"}


def stall_prone(beh):
    """A simulated behaviour in which a second transport fault arrives while the OnClose started by the first is still held at a
    gate: the second would wait on the one-time listener's sync.Once held by the first (an artefact of parking there; the
    transition cover drops such transitions the same way, tools/tcover.py `stalls`)."""
    held = False
    for a in beh:
        x = a.get("a")
        if x in ("onclose.finish", "onclose.rest"):
            held = False
        elif x in FAULTS or (x == "pollwrite" and a.get("ok") is False):
            if held:
                return True
            held = True
    return False


def eng_run(ctx, fams, nrandom_q=60, nrandom_t=900, extra_fams=()):
    """model-check EioSession for the families, replay simulated behaviours + seeded scripts, monitor with EioMon."""
    q = ctx.quick
    all_evs = []
    viols = []
    if fams:
        es_sensitivity(ctx)
        es_liveness(ctx)
    for fam in fams:
        qc, tc = ES_FAMS[fam]
        c = qc if q else tc
        M.tlc_model(ctx, "EioSession", es_cfg(*c), "es_" + fam, timeout=2400, coverage=not q)
        behs = M.tlc_simulate(ctx, "EioSession", es_cfg(*c, inv="Emit").replace("VIEW view\n", ""), "sim_" + fam,
                              num=6 if q else 60, depth=32, seed=ctx.seed, cap=120 if q else 2500)
        nb = len(behs)
        behs = [b for b in behs if not stall_prone(b)]
        ctx.extra["simulated_behaviours_dropped_as_stall_prone"] = ctx.extra.get("simulated_behaviours_dropped_as_stall_prone", 0) + nb - len(behs)
        # the counterexamples of the deviations are schedules on which a regression would show: replay them as well
        behs = list(getattr(ctx, "devbehs", [])) + behs + es_cover(ctx, fam)
        ctx.extra["behaviours_replayed"] = ctx.extra.get("behaviours_replayed", 0) + len(behs)
        trace, summ = M.go_family(ctx, fam, behaviours=behs, nrandom=nrandom_q if q else nrandom_t, timeout=3000)
        v, lines = M.tlc_trace(ctx, "EioMon", MON_EIO_CFG, fam, trace, timeout=3000)
        evs = M.read_trace(trace)
        st = summ.get("stats", {})
        ctx.traces += st.get("scenarios", 0)
        ctx.events += lines
        ctx.extra["stalls"] = ctx.extra.get("stalls", 0) + st.get("stall", 0) + summ.get("wedges", 0)
        viols += v
        all_evs += evs
        if behs and len(ctx.samples) < 2:
            ctx.samples.append({"tlc_behaviour_of_EioSession": behs[0]})
        scns = [e["scn"] for e in evs if e["e"] == "reset"]
        if scns and len(ctx.samples) < 5:
            ctx.samples.append(sample_trace(evs, scns[-1], 30))
    for fam in extra_fams:
        trace, summ = M.go_family(ctx, fam, nrandom=nrandom_q if q else nrandom_t, timeout=3000)
        v, lines = M.tlc_trace(ctx, "EioMon", MON_EIO_CFG, fam, trace, timeout=3000)
        evs = M.read_trace(trace)
        ctx.traces += summ.get("stats", {}).get("scenarios", 0)
        ctx.events += lines
        viols += v
        all_evs += evs
        scns = [e["scn"] for e in evs if e["e"] == "reset"]
        if scns and len(ctx.samples) < 6:
            ctx.samples.append(sample_trace(evs, scns[0], 30))
    ctx.extra["distinct_nontrivial"] = len({json.dumps([e["e"] for e in all_evs[i:i + 40]]) for i in range(0, len(all_evs), 40)})
    ctx.extra["breaches_by_property"] = {}
    for v in viols:
        ctx.extra["breaches_by_property"][v.get("prop", "?")] = ctx.extra["breaches_by_property"].get(v.get("prop", "?"), 0) + 1
    M.classify(ctx, viols)
    return all_evs


ENG_ASSUME = ["every yield-point window is instantaneous (gates are open while virtual time passes)",
              "a scenario that stalls because a parked goroutine holds a lock is recorded as 'stall' and gives no verdict",
              "message text excludes the 0x1e record separator; revision-3 binary payloads carry ASCII text only (see DESIGN.md limits)",
              "ordering across an upgrade is demanded only of clients that wait for the probe pong and have no poll outstanding",
              "breaches of other session-level properties found in the same traces are reported under their own property id"]
ENG_RULE = ("one trace = one bubble run of a real engine.io server with 1-3 sessions driven by a TLC behaviour of EioSession.tla "
            "(writer goroutines and the second half of OnClose stepped through verif gates) or by a seeded random script; "
            "the TLA+ monitor EioMon.tla evaluates every session-level clause on every event")


def race_run(ctx):
    """family race: the real scheduler (GOMAXPROCS 8) instead of gates; one compact result event per scenario, judged by RaceMon.tla"""
    trace, summ = M.go_family(ctx, "race", nrandom=9 if ctx.quick else 240, timeout=3000, env={"VERIF_WALL_S": "120"})
    v, lines = M.tlc_trace(ctx, "RaceMon", MON_EIO_CFG, "race", trace, timeout=3000)
    n = summ.get("stats", {}).get("scenarios", 0)
    ctx.traces += n
    ctx.events += lines
    ctx.extra["race_scenarios_real_scheduler"] = n
    return v


# ---- Registry.tla: several sessions at once (handshake steps x close causes x lookups x shutdown)
REG_INV = "TypeOK C04_Quiescent C04_NoUnderflow C04_Lookups C03_OneClose C03_HandedOpen C03_CloseEmitted C12_ShutdownEmpties"
REG_DEVS = [("NoRecheck", "C03_HandedOpen"), ("BlindUnreg", "C04_Quiescent"), ("CloseRace", "C03_OneClose"), ("RangeSkipsClosing", "C12_ShutdownEmpties")]


def reg_cfg(sess, feats, inv=REG_INV, dev="{}", view=True):
    return ("SPECIFICATION Spec\nCONSTANTS Sess = %s Features = %s Deviations = %s\n%sINVARIANTS %s\nCHECK_DEADLOCK FALSE\n"
            % (sess, feats, dev, "VIEW view\n" if view else "", inv))


def reg_run(ctx):
    """model-check Registry.tla, replay every transition of a bounded instance (and the counterexamples of its deviations) into the
    real server with the state projection compared after every step, judge the traces with EioMon."""
    q = ctx.quick
    M.tlc_model(ctx, "Registry", reg_cfg('{"a","b"}', '{"srvclose","lookup","graceful","fine"}'), "reg_ab")
    if not q:
        M.tlc_model(ctx, "Registry", reg_cfg('{"a","b","c"}', '{"srvclose","graceful","fine"}'), "reg_abc", timeout=1800)
    behs, sens = [], {}
    for dev, inv in REG_DEVS:
        ok = M.tlc_expect_violation(ctx, "Registry", reg_cfg('{"a","b"}', '{"srvatomic","graceful","fine"}', inv=inv, dev='{"%s"}' % dev),
                                    "reg_dev_" + dev, inv)
        sens[dev] = ok
        if ok and ctx.last_counterexample:
            b = ctx.last_counterexample
            b[0]["fine"] = True
            behs.append(b)
    ctx.extra["registry_deviations_detected"] = sens
    if not all(sens.values()):
        raise M.Inconclusive("Registry.tla is not sensitive to %s" % [k for k, v in sens.items() if not v])
    feats = '{"srvatomic","graceful","fine","lastonly"}' if q else '{"srvatomic","lookup","graceful","fine","lastonly"}'
    d = M.tlc_dir(ctx, "g_reg")
    M.write_cfg(d, "g", reg_cfg('{"a","b"}', feats, inv="TypeOK", view=False))
    rc, out = M.sh(["tlc", "-workers", "8", "-metadir", os.path.join(d, "meta"), "-dump", "dot,actionlabels", os.path.join(d, "graph"),
                    "-config", "g.cfg", "Registry.tla"], cwd=d, timeout=1800)
    if rc == 124 or "Model checking completed. No error" not in out:
        raise M.Inconclusive("state graph dump of Registry.tla failed (see %s)" % d)
    outp = os.path.join(ctx.work, "cover_reg.json")
    rc, o2 = M.sh([sys.executable, os.path.join(M.ROOT, "tools", "tcover.py"), os.path.join(d, "graph.dot"), outp, "45", "0", "registry"], timeout=1800)
    if rc != 0:
        raise M.Inconclusive("tcover failed for Registry: %s" % o2[-500:])
    info = json.loads(o2.strip().splitlines()[-1])
    os.remove(os.path.join(d, "graph.dot"))
    shutil.rmtree(os.path.join(d, "meta"), ignore_errors=True)
    ctx.extra.setdefault("transition_cover", {})["registry"] = info
    ctx.states += info["states"]
    ctx.transitions += info["transitions"]
    behs += json.load(open(outp))
    ctx.extra["behaviours_replayed"] = ctx.extra.get("behaviours_replayed", 0) + len(behs)
    trace, summ = M.go_family(ctx, "reg", behaviours=behs, timeout=3000)
    v, lines = M.tlc_trace(ctx, "EioMon", MON_EIO_CFG, "reg", trace, timeout=3000)
    ctx.traces += summ.get("stats", {}).get("scenarios", 0)
    ctx.events += lines
    return v, M.read_trace(trace)


# ---- Construct.tla: the constructor window of one session (steps of onOpen / Handshake x the peer's packets x its connection failing)
CONS_INV = "TypeOK C09_NoCrash C03_Forward C03_OneClose C03_HandedLive C06_OneConnection C04_Final C04_NoUnderflow"
CONS_DEVS = [("OpenStoresBlindly", "C03_Forward"), ("OpenStoresBlindly", "C03_OneClose"), ("OpenStoresBlindly", "C03_HandedLive"),
             ("RefreshUnset", "C09_NoCrash"), ("NoRecheck", "C04_Final")]


def cons_cfg(kind, rev, maxcli, inv=CONS_INV, dev="{}", view=True):
    return ("SPECIFICATION Spec\nCONSTANTS Kind = \"%s\" Rev = %d MaxCli = %d Deviations = %s\n%sINVARIANTS %s\n%sCHECK_DEADLOCK FALSE\n"
            % (kind, rev, maxcli, dev, "VIEW view\n" if view else "", inv, "PROPERTY C03_ForwardStep\n" if inv == CONS_INV else ""))


def cons_run(ctx):
    """model-check Construct.tla (every kind and revision), check that each deviation - the code as it was before fix 43d683c / 1522b69
    - violates its invariant, replay every transition of the stream instances into the real server with the visible part of the
    state compared after every step, judge the traces with EioMon."""
    q = ctx.quick
    maxcli = 2 if q else 3
    for kind in ("stream", "polling"):
        for rev in (4, 3):
            M.tlc_model(ctx, "Construct", cons_cfg(kind, rev, maxcli), "cons_%s_%d" % (kind, rev))
    sens = {}
    devbehs = []
    for dev, inv in CONS_DEVS:
        for rev in (4, 3):
            ok = M.tlc_expect_violation(ctx, "Construct", cons_cfg("stream", rev, 2, inv=inv, dev='{"%s","fullhist"}' % dev),
                                        "cons_dev_%s_%s_%d" % (dev, inv, rev), inv)
            sens["%s/%s/rev%d" % (dev, inv, rev)] = ok
            if ok and ctx.last_counterexample:
                b = ctx.last_counterexample
                b[0]["rev"] = rev
                devbehs.append(b)                        # the schedule on which a regression would show: replayed as well
    ctx.extra["constructor_deviations_detected"] = sens
    if not all(sens.values()):
        raise M.Inconclusive("Construct.tla is not sensitive to %s" % [k for k, v in sens.items() if not v])
    behs = devbehs
    for rev in (4, 3):
        d = M.tlc_dir(ctx, "g_cons%d" % rev)
        M.write_cfg(d, "g", cons_cfg("stream", rev, maxcli, inv="TypeOK", view=False))
        rc, out = M.sh(["tlc", "-workers", "4", "-metadir", os.path.join(d, "meta"), "-dump", "dot,actionlabels", os.path.join(d, "graph"),
                        "-config", "g.cfg", "Construct.tla"], cwd=d, timeout=900)
        if rc == 124 or "Model checking completed. No error" not in out:
            raise M.Inconclusive("state graph dump of Construct.tla failed (see %s)" % d)
        outp = os.path.join(ctx.work, "cover_cons%d.json" % rev)
        rc, o2 = M.sh([sys.executable, os.path.join(M.ROOT, "tools", "tcover.py"), os.path.join(d, "graph.dot"), outp, "45", "0", "construct"], timeout=900)
        if rc != 0:
            raise M.Inconclusive("tcover failed for Construct: %s" % o2[-500:])
        info = json.loads(o2.strip().splitlines()[-1])
        os.remove(os.path.join(d, "graph.dot"))
        shutil.rmtree(os.path.join(d, "meta"), ignore_errors=True)
        ctx.extra.setdefault("transition_cover", {})["constructor_rev%d" % rev] = info
        ctx.states += info["states"]
        ctx.transitions += info["transitions"]
        bs = json.load(open(outp))
        for b in bs:
            if b:
                b[0]["rev"] = rev
        behs += bs
    ctx.extra["behaviours_replayed"] = ctx.extra.get("behaviours_replayed", 0) + len(behs)
    trace, summ = M.go_family(ctx, "cons", behaviours=behs, timeout=3000)
    v, lines = M.tlc_trace(ctx, "EioMon", MON_EIO_CFG, "cons", trace, timeout=3000)
    ctx.traces += summ.get("stats", {}).get("scenarios", 0)
    ctx.events += lines
    return v, M.read_trace(trace)


# ---- Upgrade.tla: several upgrade candidates of one session (admission tests | MaybeUpgrade | probe | upgrade packet | switch)
UPGR_INV = "TypeOK C08_OneAtATime C08_NoneAfterSwitch C08_AtMostOnce C08_SwitchKept C08_FlagMeansCandidate C08_ProbeNotLost"
UPGR_DEVS = [("NoCAS", "C08_OneAtATime"), ("NoCAS", "C08_FlagMeansCandidate"), ("SwitchWindow", "C08_AtMostOnce"),
             ("SwitchWindow", "C08_NoneAfterSwitch"), ("SwitchWindow", "C08_SwitchKept"), ("EagerReader", "C08_ProbeNotLost")]


def upgr_cfg(cands, inv=UPGR_INV, dev="{}", view=True, live=False):
    return ("SPECIFICATION %s\nCONSTANTS Cands = %s Deviations = %s\n%sINVARIANTS %s\n%sCHECK_DEADLOCK FALSE\n"
            % ("FairSpec" if live else "Spec", cands, dev, "VIEW view\n" if view and not live else "", inv, "PROPERTY L_C08_ProbeAnswered\n" if live else ""))


def upgr_run(ctx):
    """model-check Upgrade.tla, check that each deviation - the code before fixes 5b8a3bd / 37e01be - violates its invariants, replay every
    transition into the real server (the candidates' goroutines held at upgrade.gated and upgrade.switching) with flags, transport,
    number of switches and the candidates' connections compared after every step, judge the traces with EioMon."""
    q = ctx.quick
    M.tlc_model(ctx, "Upgrade", upgr_cfg('{"a","b"}'), "upgr_ab")
    M.tlc_model(ctx, "Upgrade", upgr_cfg('{"a","b"}', live=True), "upgr_ab_live")
    M.tlc_model(ctx, "Upgrade", upgr_cfg('{"a","b","c"}'), "upgr_abc")
    if not q:
        M.tlc_model(ctx, "Upgrade", upgr_cfg('{"a","b","c","d"}'), "upgr_abcd", timeout=1800)
    sens = {}
    devbehs = []
    for dev, inv in UPGR_DEVS:
        ok = M.tlc_expect_violation(ctx, "Upgrade", upgr_cfg('{"a","b"}', inv=inv, dev='{"%s","fullhist"}' % dev),
                                    "upgr_dev_%s_%s" % (dev, inv), inv)
        sens["%s/%s" % (dev, inv)] = ok
        if ok and ctx.last_counterexample:
            devbehs.append(ctx.last_counterexample)      # the schedule on which a regression would show: replayed as well
    ctx.extra["upgrade_deviations_detected"] = sens
    if not all(sens.values()):
        raise M.Inconclusive("Upgrade.tla is not sensitive to %s" % [k for k, v in sens.items() if not v])
    d = M.tlc_dir(ctx, "g_upgr")
    M.write_cfg(d, "g", upgr_cfg('{"a","b"}' if q else '{"a","b","c"}', inv="TypeOK", view=False))
    rc, out = M.sh(["tlc", "-workers", "4", "-metadir", os.path.join(d, "meta"), "-dump", "dot,actionlabels", os.path.join(d, "graph"),
                    "-config", "g.cfg", "Upgrade.tla"], cwd=d, timeout=900)
    if rc == 124 or "Model checking completed. No error" not in out:
        raise M.Inconclusive("state graph dump of Upgrade.tla failed (see %s)" % d)
    outp = os.path.join(ctx.work, "cover_upgr.json")
    rc, o2 = M.sh([sys.executable, os.path.join(M.ROOT, "tools", "tcover.py"), os.path.join(d, "graph.dot"), outp, "45", "0", "upgrade"], timeout=900)
    if rc != 0:
        raise M.Inconclusive("tcover failed for Upgrade: %s" % o2[-500:])
    info = json.loads(o2.strip().splitlines()[-1])
    os.remove(os.path.join(d, "graph.dot"))
    shutil.rmtree(os.path.join(d, "meta"), ignore_errors=True)
    ctx.extra.setdefault("transition_cover", {})["upgrade_candidates"] = info
    ctx.states += info["states"]
    ctx.transitions += info["transitions"]
    behs = devbehs + json.load(open(outp))
    ctx.extra["behaviours_replayed"] = ctx.extra.get("behaviours_replayed", 0) + len(behs)
    trace, summ = M.go_family(ctx, "upgr", behaviours=behs, timeout=3000)
    v, lines = M.tlc_trace(ctx, "EioMon", MON_EIO_CFG, "upgr", trace, timeout=3000)
    ctx.traces += summ.get("stats", {}).get("scenarios", 0)
    ctx.events += lines
    return v, M.read_trace(trace)


@prop("XUPGR")
def xupgr(ctx):
    """development aid: ./check XUPGR   - the Upgrade.tla pipeline alone"""
    v, evs = upgr_run(ctx)
    M.classify(ctx, v)
    ctx.assumptions = ENG_ASSUME
    return M.finish(ctx, rule=ENG_RULE, evs=evs)


# ---- HttpCtx.tla: the context of one HTTP request (types/http-context.go), on which "exactly one response" rests
HCTX_INV = "TypeOK C11_OneResponse C11_AttemptIsFinal C11_OneCloseEvent C11_CloseMeansDone"
HCTX_DEVS = [("FlushOnSuccess", "C11_OneResponse"), ("FlushOnSuccess", "C11_AttemptIsFinal"), ("NoGuard", "C11_OneResponse"), ("EmitTwice", "C11_OneCloseEvent")]


def hctx_cfg(maxops, inv=HCTX_INV, dev="{}", view=True, live=True):
    return ("SPECIFICATION FairSpec\nCONSTANTS MaxOps = %d Deviations = %s\n%sINVARIANTS %s\n%sCHECK_DEADLOCK FALSE\n"
            % (maxops, dev, "VIEW view\n" if view and not live else "", inv, "PROPERTY L_Closes\n" if live else ""))


def hctx_run(ctx):
    """model-check HttpCtx.tla (safety and the liveness of the watcher), check that each deviation violates its invariant and replay
    its counterexample, replay every transition on a real types.HttpContext with the state compared at every settled point."""
    q = ctx.quick
    n = 4 if q else 6
    M.tlc_model(ctx, "HttpCtx", hctx_cfg(n), "hctx")
    sens, devbehs = {}, []
    for dev, inv in HCTX_DEVS:
        ok = M.tlc_expect_violation(ctx, "HttpCtx", hctx_cfg(4, inv=inv, dev='{"%s","fullhist"}' % dev, live=False), "hctx_dev_%s_%s" % (dev, inv), inv)
        sens["%s/%s" % (dev, inv)] = ok
        if ok and ctx.last_counterexample:
            devbehs.append(ctx.last_counterexample)
    ctx.extra["http_context_deviations_detected"] = sens
    if not all(sens.values()):
        raise M.Inconclusive("HttpCtx.tla is not sensitive to %s" % [k for k, v in sens.items() if not v])
    d = M.tlc_dir(ctx, "g_hctx")
    M.write_cfg(d, "g", hctx_cfg(n, inv="TypeOK", view=False, live=False).replace("FairSpec", "Spec"))
    rc, out = M.sh(["tlc", "-workers", "4", "-metadir", os.path.join(d, "meta"), "-dump", "dot,actionlabels", os.path.join(d, "graph"),
                    "-config", "g.cfg", "HttpCtx.tla"], cwd=d, timeout=900)
    if rc == 124 or "Model checking completed. No error" not in out:
        raise M.Inconclusive("state graph dump of HttpCtx.tla failed (see %s)" % d)
    outp = os.path.join(ctx.work, "cover_hctx.json")
    rc, o2 = M.sh([sys.executable, os.path.join(M.ROOT, "tools", "tcover.py"), os.path.join(d, "graph.dot"), outp, "45", "0", "httpctx"], timeout=900)
    if rc != 0:
        raise M.Inconclusive("tcover failed for HttpCtx: %s" % o2[-500:])
    info = json.loads(o2.strip().splitlines()[-1])
    os.remove(os.path.join(d, "graph.dot"))
    shutil.rmtree(os.path.join(d, "meta"), ignore_errors=True)
    ctx.extra.setdefault("transition_cover", {})["http_context"] = info
    ctx.states += info["states"]
    ctx.transitions += info["transitions"]
    behs = devbehs + json.load(open(outp))
    ctx.extra["behaviours_replayed"] = ctx.extra.get("behaviours_replayed", 0) + len(behs)
    trace, summ = M.go_family(ctx, "hctx", behaviours=behs, timeout=3000)
    v, lines = M.tlc_trace(ctx, "EioMon", MON_EIO_CFG, "hctx", trace, timeout=3000)
    ctx.traces += summ.get("stats", {}).get("scenarios", 0)
    ctx.events += lines
    return v, M.read_trace(trace)


@prop("XHCTX")
def xhctx(ctx):
    """development aid: ./check XHCTX   - the HttpCtx.tla pipeline alone"""
    v, evs = hctx_run(ctx)
    M.classify(ctx, v)
    ctx.assumptions = ENG_ASSUME
    return M.finish(ctx, rule=ENG_RULE, evs=evs)


@prop("XCONS")
def xcons(ctx):
    """development aid: ./check XCONS   - the Construct.tla pipeline alone"""
    v, evs = cons_run(ctx)
    M.classify(ctx, v)
    ctx.assumptions = ENG_ASSUME
    return M.finish(ctx, rule=ENG_RULE, evs=evs)


def eng_prop(pid, fams, extra=(), nq=60, nt=900, race=False, reg=False, cons=False, upgr=False, hctx=False):
    @prop(pid)
    def f(ctx):
        evs = eng_run(ctx, fams, nq, nt, extra)
        if hctx:
            v, hevs = hctx_run(ctx)
            M.classify(ctx, v)
            evs = evs + hevs
        if upgr:
            v, uevs = upgr_run(ctx)
            M.classify(ctx, v)
            evs = evs + uevs
        if cons:
            v, cevs = cons_run(ctx)
            M.classify(ctx, v)
            evs = evs + cevs
        if reg:
            v, revs = reg_run(ctx)
            M.classify(ctx, v)
            evs = evs + revs
        if race:
            M.classify(ctx, race_run(ctx))
        ctx.assumptions = ENG_ASSUME
        return M.finish(ctx, rule=ENG_RULE, evs=evs)
    return f


eng_prop("C01", ["flow", "upg"], extra=("direct",), race=True)
eng_prop("C02", ["flow", "poll", "dreq"], extra=("direct",))
eng_prop("C03", ["life"], extra=("direct",), nq=90, race=True, reg=True, cons=True)
eng_prop("C04", ["life"], nq=90, race=True, reg=True, cons=True)
BEAT_CFG = ("SPECIFICATION Spec\nCONSTANTS PI = %d PT = %d MaxNow = %d Delays = %s\n"
            "INVARIANTS NoMissedPing NoMissedTimeout TimeoutExact AnsweredNeverClosed PingSchedule\nCHECK_DEADLOCK FALSE\n")


BEAT3_CFG = ("SPECIFICATION Spec\nCONSTANTS PI = %d PT = %d MaxNow = %d Gaps = {99, 1, 2, 3, 4, 5, 6} Deviations = %s\nVIEW view\n"
             "INVARIANTS %s\nCHECK_DEADLOCK FALSE\n")


@prop("C07")
def c07(ctx):
    q = ctx.quick
    for pi, pt in ((3, 2), (2, 3)) if q else ((3, 2), (2, 3), (4, 4), (1, 5)):
        M.tlc_model(ctx, "Beat", BEAT_CFG % (pi, pt, 16 if q else 20, "{99, 0, 1, 2, 3, 4}"), "beat_%d_%d" % (pi, pt), timeout=2400)
        # revision 3: the client pings (gaps from a grid that includes the deadline itself), one deadline timer, the tick window
        M.tlc_model(ctx, "Beat3", BEAT3_CFG % (pi, pt, 16 if q else 24, "{}", "R3_Exact R3_NotLate R3_AcceptedBefore"), "beat3_%d_%d" % (pi, pt))
    sens = {}
    for dev in ("DeadlinePT", "NoRefresh", "StaleTick"):
        sens[dev] = M.tlc_expect_violation(ctx, "Beat3", BEAT3_CFG % (3, 2, 16, '{"%s"}' % dev, "R3_Exact"), "beat3_dev_" + dev, "R3_Exact")
    ctx.extra["beat3_deviations_detected"] = sens
    if not all(sens.values()):
        raise M.Inconclusive("Beat3.tla is not sensitive to %s" % [k for k, v in sens.items() if not v])
    evs = eng_run(ctx, ["life"] if not q else [], 120, 1500, ("beat", "direct"))
    ctx.assumptions = ENG_ASSUME + ["a pong accepted at the very instant of the deadline: both outcomes (and both at once) are admitted",
                                    "'the server sends a ping' is timed by the packetCreate event of the ping"]
    return M.finish(ctx, rule="timed heartbeat model Beat.tla checked exhaustively over a grid of pong delays incl. the deadline; real sessions "
                    "(polling and websocket, revisions 3 and 4, 9 interval/timeout pairs) driven on the same grid under the virtual clock", evs=evs)
eng_prop("C08", ["upg"], extra=("direct",), nq=90, upgr=True)
eng_prop("C11", ["poll", "dreq"], extra=("direct",), nq=90, hctx=True)
eng_prop("C12", ["life", "poll"], extra=("grace", "direct"), reg=True)
eng_prop("C18", ["flow"], extra=("reent", "direct"), nq=90)


@prop("XFAM")
def xfam(ctx):
    """development aid: XFAM=fam1,fam2 ./check XFAM   - the engine pipeline for the named model families only"""
    evs = eng_run(ctx, os.environ["XFAM"].split(","), 20, 200, ())
    ctx.assumptions = ENG_ASSUME
    return M.finish(ctx, rule=ENG_RULE, evs=evs)


@prop("XRUN")
def xrun(ctx):
    """development aid: XRUN_FAM=direct [VERIF_ONLY=substring] ./check XRUN   - one driver family, judged by EioMon"""
    evs = eng_run(ctx, [], 20, 200, tuple(os.environ["XRUN_FAM"].split(",")))
    ctx.assumptions = ENG_ASSUME
    return M.finish(ctx, rule=ENG_RULE, evs=evs)


# ----------------------------------------------------------------------- C05
RT_ATTACH = '{"none","serveropts","path-slash","path-noslash","custom","notrailing"}'
RT_SHAPES = '{"exact","noslash","sub","subslash","dot","enddot","dotdot","enddotdot","up","dbl","case","other","prefixonly"}'


def rt_cfg(mode, quick, emit, inv="TableOK RouteOK"):
    if quick:
        dom = ('Methods = {"GET","POST"} Transports = {"polling","websocket","webtransport","bogus","absent"}\n'
               ' Sids = {"absent","unknown","known-same","known-other","closed","closing"} Eios = {"4","3","absent"} Origins = {"ok","ctl"}\n'
               ' Upgrades = {TRUE, FALSE} Hooks = {"none","deny"} Mws = {"none","fail"} Enabled = {"pw","p"} Eio3s = {TRUE, FALSE}\n')
    else:
        dom = ('Methods = {"GET","POST","PUT"} Transports = {"polling","websocket","webtransport","bogus","absent","repeated"}\n'
               ' Sids = {"absent","unknown","known-same","known-other","closed","closing"} Eios = {"4","3","absent","garbage"} Origins = {"ok","ctl"}\n'
               ' Upgrades = {TRUE, FALSE} Hooks = {"none","allow","deny"} Mws = {"none","ok","fail"} Enabled = {"pw","p","w"} Eio3s = {TRUE, FALSE}\n')
    rm = '{"GET","POST","CONNECT"}' if quick else '{"GET","POST","CONNECT","OPTIONS","DELETE","HEAD"}'
    return ("SPECIFICATION Spec\nCONSTANTS Attach = %s\n Shapes = %s\n RouteMethods = %s\n %s Mode = \"%s\" Emit = %s\nINVARIANTS %s\n"
            % (RT_ATTACH, RT_SHAPES, rm, dom, mode, emit, inv))


def tlc_cells(ctx, module, cfgtext, name, marker="CELL "):
    d = M.tlc_dir(ctx, "c_" + name)
    M.write_cfg(d, name, cfgtext)
    rc, out = M.sh(["tlc", "-workers", "1", "-metadir", os.path.join(d, "meta"), "-config", name + ".cfg", module + ".tla"],
                   cwd=d, timeout=900, env={"JAVA_TOOL_OPTIONS": "-Xss512m"})
    cells = []
    for line in out.splitlines():
        line = line.strip()
        if line.startswith('"' + marker):
            cells.append(json.loads(json.loads(line)[len(marker):]))
    if not cells:
        open(os.path.join(d, "tlc.out"), "w").write(out)
        raise M.Inconclusive("no cells from TLC (%s)" % d)
    import shutil
    shutil.rmtree(os.path.join(d, "meta"), ignore_errors=True)
    return cells


@prop("C05")
def c05(ctx):
    q = ctx.quick
    M.tlc_model(ctx, "Routing", rt_cfg("route", q, "FALSE"), "rt_route")
    M.tlc_model(ctx, "Routing", rt_cfg("admit", q, "FALSE"), "rt_admit", timeout=1500)
    cells = tlc_cells(ctx, "Routing", rt_cfg("route", q, "TRUE", "EmitCell"), "route")
    cells += tlc_cells(ctx, "Routing", rt_cfg("admit", q, "TRUE", "EmitCell"), "admit")
    cells += tlc_cells(ctx, "Routing", rt_cfg("wtadmit", q, "TRUE", "EmitCell"), "wtadmit")
    ctx.extra["cells"] = len(cells)
    trace, summ = M.go_family(ctx, "rt", behaviours=[cells], timeout=3000)
    mon = rt_cfg("admit", q, "FALSE", "TableOK").replace("SPECIFICATION Spec", "SPECIFICATION MSpec").replace("INVARIANTS TableOK\n", "") \
        + 'CONSTANT TraceFile = "trace.ndjson"\nCHECK_DEADLOCK FALSE\n'
    viols, lines = M.tlc_trace(ctx, "RoutingMon", mon, "rt", trace, timeout=3000)
    info = ctx.last_nonconf[0] if ctx.last_nonconf else {}
    ctx.extra["cells_checked"] = info.get("cells", 0)
    ctx.extra["cells_unspecified_by_the_documents"] = info.get("unspecified", 0)
    ctx.traces = info.get("cells", 0)
    ctx.events = lines
    evs = M.read_trace(trace)
    ctx.samples = [e for e in evs if e["e"] == "rt.cell"][:3]
    ctx.extra["distinct_nontrivial"] = info.get("cells", 0) - info.get("unspecified", 0)
    for v in viols:
        c = v.get("cell", {})
        v["sig"] = "%s:%s" % (c.get("attach"), c.get("shape")) if c.get("kind") == "route" else "admit:%s" % (v.get("want", {}).get("code"))
    M.classify(ctx, viols)
    ctx.assumptions = ["the decision table is written from README + property text; cells the documents leave open (501 for upgrades with websocket disabled, "
                       "repeated query parameter, non-GET upgrade, ...) accept any outcome and are counted separately",
                       "host-based mux patterns and several mounts on one HttpServer are not part of the property"]
    return M.finish(ctx, rule="one case = one cell of Routing.tla (attach options x path shape, or method x transport x sid x EIO x Origin x upgrade x hook x "
                    "middleware x enabled transports x allowEIO3) executed on a fresh real server", exhaustive=True, evs=evs)


# ----------------------------------------------------------------------- C06
def hs_cfg(quick, emit, inv="TableOK"):
    if quick:
        dom = ('PIs = {25000, 300} PTs = {20000} MaxPayloads = {1000000, 5000} EnabledSets = {"p","pw","pwt","w"} AllowUpgrades = {TRUE, FALSE}\n'
               ' Eio3s = {TRUE, FALSE} Initials = {"none","text","binary"} Transports = {"polling","websocket","webtransport"} Eios = {"4","3","absent","3then4","4then3","5","04"} B64s = {FALSE, TRUE}\n')
    else:
        dom = ('PIs = {25000, 300} PTs = {20000, 200} MaxPayloads = {1000000, 5000} EnabledSets = {"p","pw","pwt","pt","w"} AllowUpgrades = {TRUE, FALSE}\n'
               ' Eio3s = {TRUE, FALSE} Initials = {"none","text","binary"} Transports = {"polling","websocket","webtransport"} Eios = {"4","3","absent","3then4","4then3","5","04","40","+4","4.0","four"} B64s = {FALSE, TRUE}\n')
    return "SPECIFICATION Spec\nCONSTANTS %s Emit = %s\nINVARIANTS %s\n" % (dom, emit, inv)


@prop("C06")
def c06(ctx):
    q = ctx.quick
    M.tlc_model(ctx, "Handshake", hs_cfg(q, "FALSE"), "hs_table")
    cells = tlc_cells(ctx, "Handshake", hs_cfg(q, "TRUE", "EmitCell"), "hs")
    if q:
        import random
        random.Random(ctx.seed).shuffle(cells)
        cells = cells[:700]
    ctx.extra["cells"] = len(cells)
    trace, summ = M.go_family(ctx, "hs", behaviours=[cells], timeout=3000)
    mon = hs_cfg(q, "FALSE").replace("SPECIFICATION Spec", "SPECIFICATION MSpec").replace("INVARIANTS TableOK\n", "") \
        + 'CONSTANT TraceFile = "trace.ndjson"\nCHECK_DEADLOCK FALSE\n'
    viols, lines = M.tlc_trace(ctx, "HandshakeMon", mon, "hs", trace, timeout=3000)
    info = ctx.last_nonconf[0] if ctx.last_nonconf else {}
    ctx.traces = info.get("cells", 0)
    ctx.events = lines
    evs = M.read_trace(trace)
    ctx.samples = [e for e in evs if e["e"] == "hs.cell"][:3]
    ctx.extra["distinct_nontrivial"] = info.get("cells", 0)
    for v in viols:
        o, c = v.get("obs", {}), v.get("cell", {})
        v["sig"] = "initial:%s->%s:n%s" % (c.get("initial"), o.get("initial"), v.get("ordinal")) if o.get("initial") != c.get("initial") else "other"
    M.classify(ctx, viols)
    ctx.assumptions = ["WebTransport sessions are opened through the fake HTTP/3 layer (a real webtransport.Session) with the handshake packet '0'",
                       "quick tier samples 700 cells of the lattice with VERIF_SEED; thorough runs the whole lattice"]
    return M.finish(ctx, rule="one case = the n-th (n=1..3) handshake of a fresh server configured as one cell of Handshake.tla; open packet, first "
                    "message, connection events, revision, payload format and heartbeat mode observed", exhaustive=not q, evs=evs)


# ------------------------------------------------------------------ C16 / C17
HR_BASE = ('Revs = {4, 3} B64s = {FALSE, TRUE} Jsonps = {FALSE, TRUE} AEs = %s\n Thresholds = {"default", "zero", "off"} Flags = {"default", "true", "false"} '
           'Sizes = {10, 3000} Kinds = {"text", "binary"} Js = %s Tails = {"none", "close"}\n'
           ' Cookies = {"none", "default", "custom"} HsTransports = {"polling", "websocket"} Policies = {"none", "star", "string", "list", "regexp", "true", "false"}\n'
           ' Creds = {TRUE, FALSE} ReqOrigins = {"a", "evil", "absent"} Preflights = {TRUE, FALSE} Continues = {TRUE, FALSE} Statuses = {204, 200}\n'
           ' OuterVarys = {"none", "ae", "xorig", "lower"}\n')
HR_AES_Q = '{"absent", "gzip", "deflate", "several", "identity", "gzipq0", "gzipq00", "q000deflate", "gzipq0dot", "gzipq0001", "ows", "upper", "starq0", "qempty"}'
HR_AES_T = '{"absent", "gzip", "deflate", "br", "zstd", "several", "identity", "gzipq0", "mixedq", "gzipq00", "q000deflate", "gzipq0dot", "gzipq0001", "ows", "upper", "starq0", "qempty"}'
HR_JS = '{"seven", "12ab", "script", "empty", "inject", "neg1", "plus7", "zeros", "float", "hex", "huge"}'


def hr_cfg(mode, quick, emit, inv="TableOK"):
    return ("SPECIFICATION Spec\nCONSTANTS Mode = \"%s\" Emit = %s\n %s\nINVARIANTS %s\n"
            % (mode, emit, HR_BASE % (HR_AES_Q if quick else HR_AES_T, HR_JS), inv))


def hr_run(ctx, modes, cap_quick):
    q = ctx.quick
    cells = []
    for mode in modes:
        M.tlc_model(ctx, "HttpResp", hr_cfg(mode, q, "FALSE"), "hr_" + mode)
        cs = tlc_cells(ctx, "HttpResp", hr_cfg(mode, q, "TRUE", "EmitCell"), "hr_" + mode)
        if q and len(cs) > cap_quick:
            import random
            # (the cells with a packet of the transport's own in the response are few: all of them, every time)
            keep = [c for c in cs if c.get("tail", "none") != "none"]
            cs = [c for c in cs if c.get("tail", "none") == "none"]
            random.Random(ctx.seed).shuffle(cs)
            cs = keep + cs[:cap_quick]
        cells += cs
    ctx.extra["cells"] = len(cells)
    trace, summ = M.go_family(ctx, "hr", behaviours=[cells], timeout=3000)
    mon = hr_cfg(modes[0], q, "FALSE").replace("SPECIFICATION Spec", "SPECIFICATION MSpec").replace("INVARIANTS TableOK\n", "") \
        + 'CONSTANT TraceFile = "trace.ndjson"\nCHECK_DEADLOCK FALSE\n'
    viols, lines = M.tlc_trace(ctx, "HttpRespMon", mon, "hr", trace, timeout=3000)
    info = ctx.last_nonconf[0] if ctx.last_nonconf else {}
    ctx.traces = info.get("cells", 0)
    ctx.events = lines
    evs = M.read_trace(trace)
    ctx.samples = [e for e in evs if e["e"] == "hr.cell"][:3]
    ctx.extra["distinct_nontrivial"] = info.get("cells", 0)
    return viols, evs


@prop("C16")
def c16(ctx):
    viols, evs = hr_run(ctx, ["resp"], 1500)
    for v in viols:
        c, o = v.get("cell", {}), v.get("obs", {})
        v["sig"] = "coding:%s:%s" % (c.get("ae"), o.get("cenc")) if o.get("cenc") not in (v.get("want", {}).get("codings") or [""]) else "other"
        v["ae"] = c.get("ae")
        v["cenc"] = o.get("cenc")
    M.classify(ctx, viols)
    ctx.assumptions = ["decoder libraries (gzip, zlib, brotli, zstd, encoding/json) are trusted", "content equality of payloads is decided in Go",
                       "no coding is always admissible (the property says 'only when'); which of several acceptable codings is chosen is left open"]
    return M.finish(ctx, rule="one case = one poll response of a fresh server for one cell of HttpResp.tla (revision x b64 x JSONP x Accept-Encoding x "
                    "threshold x compress flag x size x kind x j parameter), decoded with the independent codec", exhaustive=not ctx.quick, evs=evs)


@prop("C17")
def c17(ctx):
    viols, evs = hr_run(ctx, ["cookie", "cors"], 100000)
    for v in viols:
        c = v.get("cell", {})
        v["sig"] = ("cookie:%s:%s" % (c.get("transport"), c.get("step"))) if v.get("clause") == "cookie" else "cors:%s" % c.get("policy")
        v["transport"] = c.get("transport")
    M.classify(ctx, viols)
    ctx.assumptions = ["a fixed-string CORS origin is sent whatever the request's Origin is (it names the configured origin, not the request's)"]
    return M.finish(ctx, rule="one case = one HTTP response (handshake / poll / post / poll) of a fresh server per cookie cell, or one request per CORS cell "
                    "(policy shape x credentials x request origin x preflight x preflightContinue x status)", exhaustive=True, evs=evs)


# ------------------------------------------------------------------ C09 / C10
HOST_CFG = ('SPECIFICATION Spec\nCONSTANTS Phases = {"fresh", "traffic", "upgrading", "pinged"} Classes = {"wrongdir", "early-heartbeat", "unknown-type", '
            '"empty-packet", "v3-trunc-len", "v3-inflated-len", "v3-neg-len", "v3bin-garbage", "bad-utf8", "bad-base64", "octet-v4", "odd-method", "huge-query", '
            '"jsonp-garbage", "ws-binary-on-b64", "ws-empty", "ws-control", "ws-after-close", "post-after-close", "eio-mismatch-upgrade", "garbage-body", '
            '"double-colon", "many-packets", "probe-repeat", "probe-then-silence", "wt-bad-handshake", "bad-accept-encoding", "bad-headers"}\n Revs = {3, 4} Kinds = {"polling", "websocket"} Limits = {100, 1000, 5000} Mode = "%s"\nINVARIANTS Total SizeOK\n')


@prop("C09")
def c09(ctx):
    M.tlc_model(ctx, "Hostile", HOST_CFG % "host", "hostile_table")
    evs = eng_run(ctx, [], 40, 600, ("host",))
    # the constructor window (Construct.tla): heartbeat packets and connection failures at every step of onOpen / Handshake
    v, cevs = cons_run(ctx)
    M.classify(ctx, v)
    evs = evs + cevs
    # coverage of the (class, revision, transport) cells by the hostile steps of this run
    seen = {(e["class"], e["proto"], e["kind"]) for e in evs if e["e"] == "hostile"}
    ctx.extra["hostile_cells_exercised"] = len(seen)
    ctx.extra["hostile_steps"] = sum(1 for e in evs if e["e"] == "hostile")
    ctx.assumptions = ENG_ASSUME + ["class-based generation with random concretisation; no coverage-guided byte-level fuzzing",
                                    "CPU budget per hostile step: 1.5 s + 20 ms per kilobyte received",
                                    "heartbeat packets, wrong-direction packets and messages inside the constructor window (hswin_*), and every transition of Construct.tla replayed (cons)"]
    return M.finish(ctx, rule="one trace = a server with a canary session and 4-8 victim sessions, each hit in a random phase by one hostile input class "
                    "(23 classes x revisions x transports); after every hostile step the canary must complete a message round trip", evs=evs)


@prop("C10")
def c10(ctx):
    M.tlc_model(ctx, "Hostile", HOST_CFG % "size", "size_table")
    evs = eng_run(ctx, [], 40, 600, ("limit",))
    # WebTransport frames: the reader must refuse an over-limit frame without draining it (WTMon tags that clause C10)
    trace, summ = M.go_family(ctx, "wtr", nrandom=60 if ctx.quick else 600, timeout=2400)
    v, lines = M.tlc_trace(ctx, "WTMon", MON_WT_CFG, "wtr", trace, timeout=2400)
    ctx.traces += summ.get("stats", {}).get("scenarios", 0)
    ctx.events += lines
    M.classify(ctx, [x for x in v if x.get("prop") == "C10"])
    ctx.extra["size_probes"] = sum(1 for e in evs if e["e"] in ("c10.post", "c10.frame"))
    ctx.assumptions = ENG_ASSUME + ["the constant K of 'limit plus a constant' is one read buffer: 64 KiB",
                                    "WebTransport frames are bounded at the framing layer (C15)"]
    return M.finish(ctx, rule="one trace = a server with limit 100/1000/5000 receiving polling bodies (declared and unknown length, single and multi-packet) and "
                    "websocket frames (direct and upgraded sessions) of limit-1, limit, limit+1, 10x and 300x the limit, with a canary session", evs=evs)


# ------------------------------------------------------------------ development aid (not a registered check)
@prop("XDEV")
def xdev(ctx):
    """XDEV_DEVS / XDEV_FEATS / XDEV_INV: take TLC's counterexample of an invariant under the given Deviations and replay it
    into the real server; prints the monitor's verdicts. Used to reproduce on the code what the model predicts.
    Run with VERIF_EVID_DIR and VERIF_REPLAYS_DIR pointing to scratch directories."""
    devs, feats, inv = os.environ["XDEV_DEVS"], os.environ["XDEV_FEATS"], os.environ["XDEV_INV"]
    isprop = inv == "C03_SilentAfterClose"
    cfg = es_cfg(os.environ.get("XDEV_MSGS", "{1,2}"), "{7}", 3, 1, feats, inv="TypeOK" if isprop else inv, dev=devs, props=False)
    if isprop:
        cfg = cfg.replace("CHECK_DEADLOCK", "PROPERTY C03_SilentAfterClose\nCHECK_DEADLOCK")
    ok = M.tlc_expect_violation(ctx, "EioSession", cfg, "xdev", inv)
    print("model violated:", ok, json.dumps(ctx.last_counterexample))
    if not ok:
        return 2
    trace, summ = M.go_family(ctx, "flow", behaviours=[ctx.last_counterexample], nrandom=0)
    v, lines = M.tlc_trace(ctx, "EioMon", MON_EIO_CFG, "xdev", trace)
    evs = M.read_trace(trace)
    for x in v:
        print("BREACH", json.dumps(x))
    if os.environ.get("XDEV_SHOW"):
        for e in evs:
            print(json.dumps(e)[:300])
    M.classify(ctx, v)
    return M.finish(ctx, rule="xdev", evs=evs)
