"""Per-property check functions (imported by ./check)."""
import json, os, sys
import __main__ as M

REGISTRY = {}


def prop(pid):
    def deco(fn):
        REGISTRY[pid] = fn
        return fn
    return deco


def sample_trace(evs, scn, n=25):
    return {"scenario": scn, "events": M.scenario_slice(evs, scn)[:n]}


# ----------------------------------------------------------------------- C19
TIMER_CFG = """SPECIFICATION Spec
CONSTANTS Kind = "%s" P = %d Callers = {c1, c2} MaxOps = %d MaxNow = %d Deviations = %s
VIEW view
INVARIANTS %s
CHECK_DEADLOCK FALSE
"""


@prop("C19")
def c19(ctx):
    q = ctx.quick
    ops, horizon = (4, 7) if q else (6, 9)
    inv = "C19_Runs C19_StopPrompt C19_NoLeak"
    behs = []
    for kind, dev, name in (("timeout", "{}", "timeout"), ("interval", "{}", "interval_design"),
                            ("interval", '{"TickWindow"}', "interval_asis")):
        for p in ((2,) if q else (2, 3)):
            M.tlc_model(ctx, "Timer", TIMER_CFG % (kind, p, ops, horizon, dev, inv), "%s_p%d" % (name, p),
                        coverage=not q)
            if name == "interval_design":
                continue  # the code as it stands has the tick window; replay the as-is behaviours
            bs = M.tlc_simulate(ctx, "Timer", TIMER_CFG % (kind, p, ops, horizon, dev, "Emit"), "sim_%s_p%d" % (name, p),
                                num=150 if q else 1500, depth=40, seed=ctx.seed)
            for b in bs:
                for a in b:
                    if a["a"] == "create":
                        a["p"] = p
            behs += bs
    if not q:
        behs = behs[:4000]
    ctx.extra["behaviours_replayed"] = len(behs)
    trace, summ = M.go_family(ctx, "timer", behaviours=behs, nrandom=150 if q else 3000)
    viols, lines = M.tlc_trace(ctx, "TimerMon", 'SPECIFICATION Spec\nCONSTANT TraceFile = "trace.ndjson"\nCHECK_DEADLOCK FALSE\n',
                               "timer", trace)
    evs = M.read_trace(trace)
    ctx.traces = summ.get("stats", {}).get("scenarios", 0)
    ctx.events = lines
    scns = [e["scn"] for e in evs if e["e"] == "reset"]
    ctx.samples = [{"tlc_behaviour": behs[0] if behs else None}] + [sample_trace(evs, s) for s in scns[:1] + scns[-1:]]
    ctx.extra["distinct_nontrivial"] = len({json.dumps([(e["e"], e.get("c"), e.get("point")) for e in M.scenario_slice(evs, s)
                                                        if e["e"] not in ("census", "reset")]) for s in scns})
    M.classify(ctx, viols)
    ctx.assumptions = ["Go >= 1.23 timer channel semantics (Stop/Reset drain a pending tick)",
                       "Refresh concurrent with a Stop still in progress has no defined outcome and is not explored",
                       "callback start is identified with the instant the timer goroutine calls/spawns it"]
    return M.finish(ctx, rule="one trace = one bubble run of utils.Timer (TLC behaviour of Timer.tla replayed through the "
                    "verif gates, or a seeded random script); distinct = distinct event-name sequences",
                    evs=evs)
