#!/bin/bash
# usage: tools/try_mutant.sh <patch.diff> <Cxx> [tier]   -- applies the patch to /repo, runs the check, reverts.
set -u
patch=$1; pid=$2; tier=${3:-quick}
cd /repo && git diff --quiet || { echo "/repo dirty"; exit 9; }
git -C /repo apply "$patch" || { echo "patch does not apply"; exit 9; }
cd /verif && timeout 3000 ./check "$pid" --tier "$tier" > /tmp/try_mutant.$$.out 2>&1; rc=$?
git -C /repo checkout -- . ; git -C /repo clean -fdq
grep -v '^KNOWN-FINDING' /tmp/try_mutant.$$.out | head -${LINES_MAX:-12}; rm -f /tmp/try_mutant.$$.out
echo "rc=$rc"
