#!/usr/bin/env python3
"""Regenerates /verif/MANIFEST.json from the table below (kept here so the manifest stays valid and in sync)."""
import json, os
ROOT = os.path.dirname(os.path.dirname(os.path.abspath(__file__)))
ALL = ["C%02d" % i for i in range(1, 21)]

CHECKS = {
 "C19": dict(
   technique="TLA+ model of utils/timer.go at goroutine grain (Timer.tla) checked exhaustively by TLC; TLC behaviours replayed through verif gates into the real timer in a synctest bubble; recorded traces validated by the TLA+ contract monitor (TimerMon.tla)",
   text="Exhaustive TLC exploration of every interleaving of Stop/Refresh callers with the runtime timer and the timer goroutine (design without and code with the tick window), then conformance: each TLC behaviour and several hundred seeded scripts are executed on the real utils.Timer under a virtual clock, and TLC evaluates the C19 contract (same TLA+ operators as the model) on every recorded event. Bounded model checking plus trace validation, not a proof.",
   note="Trusted: Go>=1.23 timer-channel semantics as modelled; testing/synctest virtual clock; goroutine census by stack inspection. Refresh concurrent with an unfinished Stop is outside the explored space.",
   design_ref="DESIGN.md section 4 (C19), section 3 (Timer.tla)"),
}

NOT_YET = "check not built yet (work in progress; see DESIGN.md section 4)"

def main():
    checks = []
    for pid in ALL:
        if pid not in CHECKS:
            continue
        c = CHECKS[pid]
        checks.append({
            "property_id": pid,
            "quick_cmd": "./check %s --tier quick" % pid,
            "thorough_cmd": "./check %s --tier thorough" % pid,
            "evidence_file": "/verif/evidence/%s.json" % pid,
            "replay_cmd_template": "./check %s --replay {path}" % pid,
            "engine": "tla-conformance",
            "level_claimed": {"category": "model_checking", "text": c["text"], "design_ref": c["design_ref"]},
            "level_note": c["note"],
            "technique": c["technique"],
        })
    na = [{"property_id": p, "reason": NOT_YET} for p in ALL if p not in CHECKS]
    m = {
        "version": 1,
        "setup_cmd": "./setup.sh",
        "hooks": {
            "guard": "verif",
            "enable": "go1.26 test -tags verif (harness module replaces github.com/zishang520/engine.io/v2 => /repo; hooks are verifhook.At(point,id) yield points, no-ops without the tag)",
            "baseline_off_cmd": "cd /repo && go test -mod=mod -vet=off -count=1 ./...",
            "source_commits": ["1e743c1"],
            "add_only": True,
        },
        "engines": [{
            "name": "tla-conformance",
            "path": "/verif/check",
            "serves_properties": sorted(CHECKS),
            "kind_free_text": "TLA+ specs (spec/*.tla) model-checked with TLC; Go harness (harness/, go1.26 testing/synctest, build tag verif) replays TLC behaviours and seeded scripts into the real code and records ndjson traces; TLC trace monitors evaluate the property predicates on the recorded traces",
        }],
        "checks": checks,
        "not_applicable": na,
        "notes": "Every verdict comes from a recorded execution of the real code judged by a TLA+ monitor; a TLC counterexample on a model alone is never a verdict. known-findings.json lists unrepaired genuine defects (printed as KNOWN-FINDING).",
    }
    with open(os.path.join(ROOT, "MANIFEST.json"), "w") as f:
        json.dump(m, f, indent=1)
    print("checks:", [c["property_id"] for c in checks])

if __name__ == "__main__":
    main()
