#!/bin/bash
# usage: tools/eval_mutants.sh [ids...]  -- applies each seeded patch to /repo, runs its property's quick check, reverts; prints one line per mutant
cd /verif
ids=${@:-$(ls seeded)}
for id in $ids; do
  p=${id%-*}
  if ! git -C /repo apply --check /verif/seeded/$id/patch.diff 2>/dev/null; then echo "$id NOAPPLY"; continue; fi
  git -C /repo apply /verif/seeded/$id/patch.diff
  timeout 3000 ./check $p --tier quick > /tmp/eval.$id.out 2>&1; rc=$?
  git -C /repo checkout -- . ; git -C /repo clean -fdq
  props=$(grep -o '^VIOLATION property=C[0-9]*' /tmp/eval.$id.out | sort | uniq -c | tr '\n' ' ')
  clauses=$(grep -o 'clause=[a-z_.A-Z0-9]*' /tmp/eval.$id.out | sort -u | tr '\n' ' ')
  echo "$id rc=$rc $props | $clauses"
done
