#!/bin/bash
# usage: tools/confirm_mutant.sh <Cxx> <k> <pkgdir> <run-regex>
# Confirms in the scratch worktree /tmp/mut/<Cxx>/wt that mutant k compiles, passes the pinned suite,
# and that its demo fails with the patch and passes without. Saves it under /verif/seeded/<Cxx>-<k>/.
set -u
P=$1; K=$2; PKG=$3; RX=$4
WT=/tmp/mut/$P/wt; SRC=/tmp/mut/$P/out/$K
export GOFLAGS=-mod=mod GOPROXY=off GOSUMDB=off GOTOOLCHAIN=local
cd $WT && git checkout -q -- . && git clean -fdq
demo=$(ls $SRC | grep -E 'demo.*\.go$' | head -1)
cp $SRC/$demo $WT/$PKG/zz_seeded_demo_test.go
go1.26 test -vet=off -count=1 -run "$RX" ./$PKG/ > /tmp/cm.$$.1 2>&1; r_pristine=$?
rm $WT/$PKG/zz_seeded_demo_test.go
git apply $SRC/patch.diff || { echo "patch does not apply"; exit 9; }
go1.26 build ./... > /tmp/cm.$$.b 2>&1; r_build=$?
go1.26 test -vet=off -count=1 ./... > /tmp/cm.$$.2 2>&1; r_suite=$?
cp $SRC/$demo $WT/$PKG/zz_seeded_demo_test.go
timeout 300 go1.26 test -vet=off -count=1 -run "$RX" ./$PKG/ > /tmp/cm.$$.3 2>&1; r_mut=$?
git checkout -q -- . ; git clean -fdq
echo "demo on pristine rc=$r_pristine (want 0); build rc=$r_build (want 0); suite with patch rc=$r_suite (want 0); demo with patch rc=$r_mut (want !=0)"
if [ $r_pristine = 0 ] && [ $r_build = 0 ] && [ $r_suite = 0 ] && [ $r_mut != 0 ]; then
  D=/verif/seeded/$P-$K; mkdir -p $D
  cp $SRC/patch.diff $D/patch.diff; cp $SRC/$demo $D/demo_test.go; cp $SRC/README.md $D/README.agent.md 2>/dev/null
  cat > $D/meta.json <<EOM
{
 "property": "$P",
 "origin": "independent sub-agent given only the property text and a scratch worktree",
 "demo": {"place": "$PKG/zz_seeded_demo_test.go", "run": "GOTOOLCHAIN=local go1.26 test -vet=off -count=1 -run '$RX' ./$PKG/"},
 "confirmed": {"demo_passes_on_pristine": true, "builds_with_patch": true, "pinned_suite_passes_with_patch": true, "demo_fails_with_patch": true,
               "how": "tools/confirm_mutant.sh $P $K $PKG '$RX' in scratch worktree $WT (removed afterwards)"},
 "needs_to_manifest": "see README.agent.md",
 "detected_by": "PENDING"
}
EOM
  echo "CONFIRMED -> $D"
else
  echo "NOT CONFIRMED"; tail -5 /tmp/cm.$$.1 /tmp/cm.$$.2 /tmp/cm.$$.3
fi
rm -f /tmp/cm.$$.*
