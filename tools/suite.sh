#!/bin/bash
# the pinned suite, tag off, the way MANIFEST.hooks.baseline_off_cmd runs it (default go, which auto-switches to the cached 1.24.1)
cd ${1:-/repo} && env -u GOFLAGS -u GOPROXY -u GOSUMDB -u GOTOOLCHAIN go test -mod=mod -vet=off -count=1 ./... 2>&1 | tail -${2:-12}
