#!/usr/bin/env python3
"""tcover.py <graph.dot> <out.json> [maxlen] [cap]
Transition cover of a TLC state graph of EioSession.tla (dumped with -dump dot,actionlabels, feature "lastonly", no VIEW):
every state carries in `hist` the action that produced it.  Produces a list of behaviours (lists of action records) such
that every transition of the graph lies on at least one of them; each action record gets "exp" = the projection of the
model state reached (ready state, current transport, upgrade flags, registry, writability, pending poll), which the
harness compares with the real session after the step."""
import sys, re, json, collections

def parse_rec(txt):
    d = {}
    for kv in txt.split(","):
        if "|->" not in kv:
            continue
        k, v = [x.strip() for x in kv.split("|->", 1)]
        if v in ("TRUE", "FALSE"):
            d[k] = v == "TRUE"
        elif v.startswith('"'):
            d[k] = v.strip('"')
        else:
            try:
                d[k] = int(v)
            except ValueError:
                d[k] = v
    return d

RX = {
    "rs": re.compile(r's = \[ rs \|-> "(\w+)"'), "cur": re.compile(r'cur \|-> "(\w)"'),
    "upgrading": re.compile(r'upgrading \|-> (TRUE|FALSE)'), "upgraded": re.compile(r'upgraded \|-> (TRUE|FALSE)'),
    "reg": re.compile(r'reg \|-> (TRUE|FALSE)'), "count": re.compile(r'count \|-> (-?\d+)'),
    "wr": re.compile(r'wr \|-> \[p \|-> (TRUE|FALSE), w \|-> (TRUE|FALSE)\]'), "poll": re.compile(r'poll \|-> "(\w+)"'),
    "nclose": re.compile(r'nclose \|-> (\d+)'), "rcvd": re.compile(r'rcvd \|-> <<([^>]*)>>'),
    "dresp": re.compile(r'dresp \|-> <<([^>]*)>>'), "dh": re.compile(r'dh \|-> "(\w+)"'),
}

def project(label):
    g = lambda k: RX[k].search(label)
    cur = g("cur").group(1)
    wr = g("wr")
    rc = g("rcvd").group(1).strip()
    return {"rs": g("rs").group(1), "tr": "polling" if cur == "p" else "stream", "upgrading": g("upgrading").group(1) == "TRUE",
            "upgraded": g("upgraded").group(1) == "TRUE", "reg": g("reg").group(1) == "TRUE", "count": int(g("count").group(1)),
            "wr": (wr.group(1) if cur == "p" else wr.group(2)) == "TRUE", "poll": g("poll").group(1), "nclose": int(g("nclose").group(1)),
            "nrcvd": 0 if rc == "" else len(rc.split(",")),
            "dresp": g("dresp").group(1).strip().strip('"') if g("dresp") else "", "dret": (g("dh").group(1) == "none") if g("dh") else True,
            "_inclose": re.search(r'enter \|-> \{\}', label) is None or re.search(r'mid \|-> \{\}', label) is None}

# ---- Registry.tla: functions over the session identities are printed as records [a |-> .., b |-> ..]
def rec_of(label, var):
    m = re.search(r'/\\ ' + var + r' = \[([^\]]*)\]', label)
    return parse_rec(m.group(1)) if m else {}

def project_registry(label):
    t = re.search(r'/\\ table = \{([^}]*)\}', label)
    table = sorted(x.strip().strip('"') for x in t.group(1).split(",") if x.strip()) if t else []
    rs = rec_of(label, "rs")
    nc = re.search(r'nclose \|-> \[([^\]]*)\]', label)
    return {"table": table, "count": int(re.search(r'/\\ count = (-?\d+)', label).group(1)),
            "rs": {k: v for k, v in rs.items() if v != "none"}, "nclose": parse_rec(nc.group(1)) if nc else {}}

# ---- Construct.tla: scalar variables, printed one per conjunct
def project_construct(label):
    def v(name):
        m = re.search(r'/\\ ' + name + r' = ("?)([^ "/]*)\1', label)
        return m.group(2) if m else ""
    return {"pc": v("pc"), "rs": v("rs"), "table": v("table") == "TRUE", "count": int(v("count") or 0), "conn": int(v("conn") or 0),
            "nclose": int(v("nclose") or 0), "trs": v("trs")}

# ---- Upgrade.tla: flags, current transport, one state per candidate (a function printed as a record)
def project_upgrade(label):
    def v(name):
        m = re.search(r'/\\ ' + name + r' = ("?)([^ "/]*)\1', label)
        return m.group(2) if m else ""
    pc = rec_of(label, "pc")
    sent = rec_of(label, "sent")
    return {"upgrading": v("upgrading") == "TRUE", "upgraded": v("upgraded") == "TRUE", "tr": "polling" if v("cur") == "p" else "stream",
            "nswitch": int(v("nswitch") or 0), "closed": {k: x in ("refused", "closed", "failed") for k, x in pc.items() if x != "none"},
            "probed": {k: sent.get(k) == "read" for k, x in pc.items() if x != "none"},
            "settled": not any(pc[k] == "attached" and sent.get(k) == "probe" for k in pc)}

# ---- HttpCtx.tla
def project_httpctx(label):
    def v(name):
        m = re.search(r'/\\ ' + name + r' = ("?)([^ "/]*)\1', label)
        return m.group(2) if m else ""
    done, canc = v("done") == "TRUE", v("cancelled") == "TRUE"
    return {"done": done, "nwh": int(v("nwh") or 0), "nclose": int(v("nclose") or 0), "refused": int(v("refused") or 0),
            "settled": not (v("watch") == "waiting" and (done or canc))}

def main():
    global project
    dot, out = sys.argv[1], sys.argv[2]
    maxlen = int(sys.argv[3]) if len(sys.argv) > 3 else 45
    cap = int(sys.argv[4]) if len(sys.argv) > 4 else 0
    registry = len(sys.argv) > 5 and sys.argv[5] == "registry"
    construct = len(sys.argv) > 5 and sys.argv[5] == "construct"
    if registry:
        project = project_registry
    if construct:
        project = project_construct
        registry = True          # (same label syntax: hist is one conjunct among others, nothing is skipped)
    if len(sys.argv) > 5 and sys.argv[5] == "httpctx":
        project = project_httpctx
        registry = True
    if len(sys.argv) > 5 and sys.argv[5] == "upgrade":
        project = project_upgrade
        registry = True
    node_re = re.compile(r'^(-?\d+) \[label="((?:[^"\\]|\\.)*)"')
    edge_re = re.compile(r'^(-?\d+) -> (-?\d+) \[label=')
    act, proj, succ, init = {}, {}, collections.defaultdict(list), None
    for line in open(dot, errors="replace"):
        m = edge_re.match(line)
        if m:
            a, b = m.group(1), m.group(2)
            if a != b and b not in succ[a]:
                succ[a].append(b)
            continue
        m = node_re.match(line)
        if m:
            nid, label = m.group(1), m.group(2).replace("\\n", " ").replace('\\"', '"').replace("\\\\", "\\")
            h = re.search(r'hist = <<(.*?)>>\s*(?:/\\|$)', label) if registry else re.search(r'hist = <<(.*)>>\s*$', label)
            body = h.group(1).strip() if h else ""
            if body == "":
                init = nid
                act[nid] = None
            else:
                act[nid] = parse_rec(body.strip()[1:-1])
            proj[nid] = project(label)
    if init is None:
        print("no initial state found", file=sys.stderr); sys.exit(2)
    nodes = set(act)
    # not replayable: a second transport fault while the first close is parked INSIDE the transport's one-time listener
    # would wait on that listener's sync.Once (a sync.Mutex: the bubble cannot quiesce) - an artefact of parking there
    httpctx = len(sys.argv) > 5 and sys.argv[5] == "httpctx"
    def stalls(a, b):
        x = act[b]
        if httpctx:
            # the watcher goroutine cannot be held: an operation taken while it has something to do is not replayable
            return not proj[a]["settled"] and x is not None and x["a"] != "watch"
        if len(sys.argv) > 5 and sys.argv[5] == "upgrade":
            # nor can a transport's reader: with a probe to read and a listener to answer it, the answer comes first
            return not proj[a]["settled"] and x is not None and x["a"] != "probe"
        if registry:
            return False
        return proj[a]["_inclose"] and x is not None and (x["a"] in ("poll.overlap", "poll.abort", "peerclose", "post.overlap", "post.abort")
                                                         or (x["a"] == "pollwrite" and x.get("ok") is False))
    skipped = 0
    for a in list(succ):
        keep = [b for b in succ[a] if b in nodes and a in nodes and not stalls(a, b)]
        skipped += len(succ[a]) - len(keep)
        succ[a] = keep
    edges = {(a, b) for a in succ for b in succ[a] if a in nodes and b in nodes}
    uncovered = set(edges)
    # BFS parents from init (shortest prefixes)
    parent = {init: None}
    q = collections.deque([init])
    while q:
        x = q.popleft()
        for y in succ.get(x, []):
            if y in nodes and y not in parent:
                parent[y] = x
                q.append(y)
    uncovered = {(a, b) for (a, b) in uncovered if a in parent}      # (states only reachable through skipped edges are out)
    def prefix(x):
        p = []
        while x is not None and x != init:
            p.append(x); x = parent[x]
        return list(reversed(p))
    out_unc = collections.defaultdict(set)
    for a, b in uncovered:
        out_unc[a].add(b)
    walks = []
    # states in reverse breadth-first order: the list is consumed from its end, i.e. nearest states first
    order = [x for x in reversed(list(parent.keys()))]
    while uncovered:
        # start: the uncovered edge whose source is nearest to init
        while order and not out_unc.get(order[-1]):
            order.pop()
        if not order:
            break
        a0 = order[-1]
        path = prefix(a0)                     # nodes after init
        for i in range(len(path)):            # edges on the prefix get covered as a side effect
            e = ((init if i == 0 else path[i - 1]), path[i])
            if e in uncovered:
                uncovered.discard(e); out_unc[e[0]].discard(e[1])
        cur = a0
        while len(path) < maxlen:
            if out_unc.get(cur):
                nxt = next(iter(out_unc[cur]))
            else:
                # no uncovered edge leaves this state: try one hop through any successor that has one, else end the walk
                nxt = None
                for y in succ.get(cur, []):
                    if y in nodes and out_unc.get(y):
                        nxt = y
                        break
                if nxt is None:
                    break
                path.append(nxt); cur = nxt
                continue
            uncovered.discard((cur, nxt)); out_unc[cur].discard(nxt)
            path.append(nxt); cur = nxt
        for a in [k for k in out_unc if not out_unc[k]]:
            del out_unc[a]
        walks.append(path)
        if cap and len(walks) >= cap:
            break
    dwin = any(a is not None and a.get("a") == "flush.done" for a in act.values())
    cwin = any(a is not None and a.get("a") == "appclose.wait" for a in act.values())
    fine = any(a is not None and a.get("a") == "hs.finish" for a in act.values())
    behs = []
    for p in walks:
        b = []
        for n in p:
            r = dict(act[n]); r["exp"] = {k: v for k, v in proj[n].items() if not k.startswith("_")}; b.append(r)
        if b and dwin:
            b[0]["dwin"] = True       # the model has the drain-listener window: the harness must hold that gate throughout
        if b and fine:
            b[0]["fine"] = True
        if b and cwin:
            b[0]["cwin"] = True       # .. the window between Close's test of the counter and the registration of its drain listener
        behs.append(b)
    json.dump(behs, open(out, "w"))
    steps = sum(len(b) for b in behs)
    print(json.dumps({"states": len(nodes), "transitions": len(edges), "walks": len(behs), "steps": steps,
                      "uncovered_after_cap": len(uncovered), "not_replayable": skipped}))

if __name__ == "__main__":
    main()
