#!/bin/bash
# usage: tools/engmon.sh <family> [nrandom] [seed]  -- run one engine family and the EioMon monitor, print violations grouped
fam=$1; n=${2:-20}; seed=${3:-1}
export GOFLAGS=-mod=mod GOPROXY=off GOSUMDB=off GOTOOLCHAIN=local
rm -rf /tmp/vo /tmp/tlc/eio; mkdir -p /tmp/tlc/eio
( cd /verif/harness && cp /repo/go.sum . && go1.26 test -tags verif -c -o /tmp/vo.test . && from=0; while true; do VERIF_FROM=$from VERIF_SEED=$seed VERIF_FAMILY=$fam VERIF_OUT=/tmp/vo VERIF_NRANDOM=$n /tmp/vo.test -test.run TestFamily > /tmp/vo.log 2>&1; rc=$?; [ $rc = 0 ] && break; last=$(grep -o '"e":"reset","idx":[0-9]*' /tmp/vo/$fam.ndjson | tail -1 | grep -o '[0-9]*$'); echo "worker rc=$rc at scenario $last"; [ $rc != 3 ] && tail -25 /tmp/vo.log | grep -E 'panic|goroutine|harness|engine' | head -12; from=$((last+1)); [ $from -ge $n ] && break; done )
cp /verif/spec/*.tla /tmp/tlc/eio/ && cd /tmp/tlc/eio && cp /tmp/vo/$fam.ndjson trace.ndjson
printf 'SPECIFICATION Spec\nCONSTANT TraceFile = "trace.ndjson"\nCHECK_DEADLOCK FALSE\n' > m.cfg
JAVA_TOOL_OPTIONS=-Xss512m tlc -workers 1 -config m.cfg EioMon.tla > tlc.out 2>&1
grep -E 'Error|^[0-9]+\. Line' tlc.out | head -8
python3 - <<'PY'
import json,collections
viols=None
for line in open('/tmp/tlc/eio/tlc.out'):
    line=line.strip()
    if line.startswith('"VIOLS '): viols=json.loads(json.loads(line)[6:])
    if line.startswith('"LINES '): print(line)
if viols is None: print("monitor did not finish")
else:
    c=collections.Counter((v['prop'],v['clause']) for v in viols)
    for k,n in sorted(c.items()): 
        ex=next(v for v in viols if (v['prop'],v['clause'])==k)
        print(k,n,'e.g.',ex['scn'],'line',ex['line'],json.dumps(ex['detail'])[:200])
    print("total",len(viols))
PY
