#!/bin/bash
# usage: tools/rebase_mutant.sh <Cxx-k> <python-edit-script>  -- re-creates a seeded patch against the current /repo HEAD in a scratch worktree,
# re-confirms (demo fails with it, passes without, suite passes) and replaces seeded/<id>/patch.diff
set -u
ID=$1; EDIT=$2; PKG=$3; RX=$4
WT=/tmp/mut/rebase-$ID
export GOFLAGS=-mod=mod GOPROXY=off GOSUMDB=off GOTOOLCHAIN=local
git -C /repo worktree add -q --detach $WT HEAD || exit 9
cd $WT && python3 $EDIT || { echo "edit failed"; git -C /repo worktree remove --force $WT; exit 9; }
git diff > /tmp/rebased.$ID.diff
cp /verif/seeded/$ID/demo_test.go $PKG/zz_seeded_demo_test.go
go1.26 test -vet=off -count=1 -run "$RX" ./$PKG/ > /tmp/rb.1 2>&1; r_mut=$?
rm $PKG/zz_seeded_demo_test.go
go1.26 test -vet=off -count=1 ./... > /tmp/rb.2 2>&1; r_suite=$?
git checkout -q -- .
cp /verif/seeded/$ID/demo_test.go $PKG/zz_seeded_demo_test.go
go1.26 test -vet=off -count=1 -run "$RX" ./$PKG/ > /tmp/rb.3 2>&1; r_pristine=$?
cd /; git -C /repo worktree remove --force $WT
echo "demo with rebased patch rc=$r_mut (want !=0); suite rc=$r_suite (want 0); demo on current HEAD rc=$r_pristine (want 0)"
if [ $r_mut != 0 ] && [ $r_suite = 0 ] && [ $r_pristine = 0 ]; then
  cp /tmp/rebased.$ID.diff /verif/seeded/$ID/patch.diff
  python3 - <<PY
import json
p='/verif/seeded/$ID/meta.json'; m=json.load(open(p))
m['rebased']="patch re-created by hand against /repo HEAD $(git -C /repo log --format=%h -1) after fix: commits changed the surrounding lines (same semantic change); re-confirmed in a scratch worktree: demo fails with it, passes without, pinned suite passes"
json.dump(m,open(p,'w'),indent=1)
PY
  echo "REBASED $ID"
else
  echo "NOT CONFIRMED"; tail -4 /tmp/rb.1 /tmp/rb.3
fi
