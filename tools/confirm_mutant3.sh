#!/bin/bash
# usage: tools/confirm_mutant2.sh <Cxx> <k>    (round 2: sources in /tmp/mut2/<Cxx>/out/<k>, worktree /tmp/mut2/<Cxx>/wt)
# Confirms that the change compiles, passes the pinned suite, and that its demo fails with the patch and passes without.
# Saves it as /verif/seeded/<Cxx>-<k+2>/.
set -u
P=$1; K=$2; N=$((K+${OFFSET:-2}))
WT=${BASE:-/tmp/mut2}/$P/wt; SRC=${BASE:-/tmp/mut2}/$P/out/$K
export GOFLAGS=-mod=mod GOPROXY=off GOSUMDB=off GOTOOLCHAIN=local
cd $WT && git checkout -q -- . && git clean -fdq
demo=$SRC/demo_test.go
pkg=$(grep -m1 '^package ' $demo | awk '{print $2}'); pkg=${pkg%_test}
case $pkg in engine|types|transports|webtransport|utils|events|config|errors|log) PKG=$pkg;; *) echo "unknown package $pkg"; exit 9;; esac
RX="Test${P}${RTAG:-R2}Demo${K}"
cp $demo $WT/$PKG/zz_seeded_demo_test.go
timeout 300 go1.26 test -vet=off -count=1 -run "$RX" ./$PKG/ > /tmp/cm2.$P.$K.1 2>&1; r_pristine=$?
grep -q "no tests to run" /tmp/cm2.$P.$K.1 && r_pristine=77
rm $WT/$PKG/zz_seeded_demo_test.go
git apply $SRC/patch.diff || { echo "patch does not apply"; exit 9; }
go1.26 build ./... > /tmp/cm2.$P.$K.b 2>&1; r_build=$?
go1.26 test -vet=off -count=1 ./... > /tmp/cm2.$P.$K.2 2>&1; r_suite=$?
cp $demo $WT/$PKG/zz_seeded_demo_test.go
timeout 300 go1.26 test -vet=off -count=1 -run "$RX" ./$PKG/ > /tmp/cm2.$P.$K.3 2>&1; r_mut=$?
git checkout -q -- . ; git clean -fdq
echo "$P-$N: demo on pristine rc=$r_pristine (want 0); build rc=$r_build (want 0); suite with patch rc=$r_suite (want 0); demo with patch rc=$r_mut (want !=0)"
if [ $r_pristine = 0 ] && [ $r_build = 0 ] && [ $r_suite = 0 ] && [ $r_mut != 0 ]; then
  D=/verif/seeded/$P-$N; mkdir -p $D
  cp $SRC/patch.diff $D/patch.diff; cp $demo $D/demo_test.go; cp $SRC/README.md $D/README.agent.md 2>/dev/null
  cat > $D/meta.json <<EOM
{
 "property": "$P",
 "round": ${ROUND:-2},
 "origin": "independent sub-agent given only the property record and a scratch worktree (nothing from /verif)",
 "demo": {"place": "$PKG/zz_seeded_demo_test.go", "run": "GOTOOLCHAIN=local go1.26 test -vet=off -count=1 -run '$RX' ./$PKG/"},
 "confirmed": {"demo_passes_on_pristine": true, "builds_with_patch": true, "pinned_suite_passes_with_patch": true, "demo_fails_with_patch": true,
               "how": "tools/confirm_mutant2.sh $P $K in scratch worktree $WT (removed afterwards), /repo HEAD $(git -C /repo log --format=%h -1)"},
 "needs_to_manifest": "see README.agent.md",
 "detected_by": "PENDING"
}
EOM
  echo "CONFIRMED -> $D"
else
  echo "NOT CONFIRMED"; tail -5 /tmp/cm2.$P.$K.1 /tmp/cm2.$P.$K.3 2>&1 | cut -c1-300
fi
