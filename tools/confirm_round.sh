#!/bin/bash
# usage: tools/confirm_round.sh <base> <rtag> <round> <Cxx> <k>
# A seeded change delivered by a sub-agent in <base>/<Cxx>/out/<k> (patch.diff, demo_test.go, README.md; demo test named
# Test<Cxx><rtag>Demo<k>) is confirmed in the scratch worktree <base>/<Cxx>/wt: the demo passes on the pristine tree; with the patch the
# tree builds, the pinned suite passes and the demo fails. A confirmed change is saved as /verif/seeded/<Cxx>-<n>/ (n = next free number).
set -u
BASE=$1; RTAG=$2; ROUND=$3; P=$4; K=$5
WT=$BASE/$P/wt; SRC=$BASE/$P/out/$K
export GOFLAGS=-mod=mod GOPROXY=off GOSUMDB=off GOTOOLCHAIN=local
[ -f $SRC/patch.diff ] && [ -f $SRC/demo_test.go ] || { echo "$P/$K: nothing delivered"; exit 9; }
cd $WT && git checkout -q -- . && git clean -fdq
demo=$SRC/demo_test.go
pkg=$(grep -m1 '^package ' $demo | awk '{print $2}'); pkg=${pkg%_test}
case $pkg in engine|types|transports|webtransport|utils|events|config|errors|log) PKG=$pkg;; *) echo "unknown package $pkg"; exit 9;; esac
RX="Test${P}${RTAG}Demo${K}"
L=/tmp/cr.$P.$K
cp $demo $WT/$PKG/zz_seeded_demo_test.go
timeout 300 go1.26 test -vet=off -count=1 -run "$RX\$" ./$PKG/ > $L.1 2>&1; r_pristine=$?
grep -q "no tests to run" $L.1 && r_pristine=77
rm $WT/$PKG/zz_seeded_demo_test.go
git apply $SRC/patch.diff || { echo "$P/$K: patch does not apply"; exit 9; }
go1.26 build ./... > $L.b 2>&1; r_build=$?
go1.26 test -vet=off -count=1 ./... > $L.2 2>&1; r_suite=$?
cp $demo $WT/$PKG/zz_seeded_demo_test.go
timeout 300 go1.26 test -vet=off -count=1 -run "$RX\$" ./$PKG/ > $L.3 2>&1; r_mut=$?
git checkout -q -- . ; git clean -fdq
echo "$P/$K: demo on pristine rc=$r_pristine (want 0); build rc=$r_build (want 0); suite with patch rc=$r_suite (want 0); demo with patch rc=$r_mut (want !=0)"
if [ $r_pristine = 0 ] && [ $r_build = 0 ] && [ $r_suite = 0 ] && [ $r_mut != 0 ]; then
  N=1; while [ -e /verif/seeded/$P-$N ]; do N=$((N+1)); done
  D=/verif/seeded/$P-$N; mkdir -p $D
  cp $SRC/patch.diff $D/patch.diff; cp $demo $D/demo_test.go; cp $SRC/README.md $D/README.agent.md 2>/dev/null
  cat > $D/meta.json <<EOM
{
 "property": "$P",
 "round": $ROUND,
 "origin": "independent sub-agent given only the property record and a scratch worktree (nothing from /verif)",
 "demo": {"place": "$PKG/zz_seeded_demo_test.go", "run": "GOTOOLCHAIN=local go1.26 test -vet=off -count=1 -run '$RX' ./$PKG/"},
 "confirmed": {"demo_passes_on_pristine": true, "builds_with_patch": true, "pinned_suite_passes_with_patch": true, "demo_fails_with_patch": true,
               "how": "tools/confirm_round.sh $BASE $RTAG $ROUND $P $K in scratch worktree $WT (removed afterwards), /repo HEAD $(git -C /repo log --format=%h -1)"},
 "needs_to_manifest": "see README.agent.md",
 "detected_by": "PENDING"
}
EOM
  echo "CONFIRMED -> $D"
else
  echo "NOT CONFIRMED"; tail -5 $L.1 $L.3 2>&1 | cut -c1-300
fi
