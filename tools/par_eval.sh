#!/bin/bash
# usage: tools/par_eval.sh [-j N] [-t tier] [ids...]
# Evaluates seeded changes in parallel WITHOUT touching /repo: each gets a scratch git worktree of /repo's HEAD
# under /tmp/pe/<id>/repo with the patch applied; ./check runs with VERIF_REPO pointing there and evidence /
# replays / work directories redirected to /tmp/pe/<id>/. Worktrees are removed afterwards.
# Prints one line per mutant and writes /tmp/pe/<id>.out (kept) .
J=4; tier=quick
while getopts j:t: o; do case $o in j) J=$OPTARG;; t) tier=$OPTARG;; esac; done; shift $((OPTIND-1))
cd /verif
ids=${@:-$(ls seeded | grep -v RESULTS)}
mkdir -p /tmp/pe
one() {
  id=$1; tier=$2; p=${id%%-*}; d=/tmp/pe/$id
  rm -rf $d; git -C /repo worktree prune; mkdir -p $d
  git -C /repo worktree add -q --detach $d/repo HEAD 2>/dev/null || { echo "$id WORKTREE-FAIL"; return; }
  if ! git -C $d/repo apply /verif/seeded/$id/patch.diff 2>/dev/null; then echo "$id NOAPPLY"; git -C /repo worktree remove --force $d/repo; return; fi
  s=$(date +%s)
  VERIF_REPO=$d/repo VERIF_EVID_DIR=$d/evidence VERIF_REPLAYS_DIR=$d/replays VERIF_WORKROOT=$d/work \
    timeout 3000 ./check $p --tier $tier > /tmp/pe/$id.out 2>&1; rc=$?
  git -C /repo worktree remove --force $d/repo; rm -rf $d/work
  props=$(grep -o '^VIOLATION property=C[0-9]*' /tmp/pe/$id.out | sort | uniq -c | awk '{printf "%s x%s ", $3, $1}')
  clauses=$(grep -o 'clause=[a-z_.A-Z0-9]*' /tmp/pe/$id.out | sort -u | tr '\n' ' ')
  echo "$id rc=$rc t=$(( $(date +%s)-s ))s $props| $clauses"
}
export -f one
printf '%s\n' $ids | xargs -P $J -I{} bash -c "one {} $tier"
git -C /repo worktree prune
