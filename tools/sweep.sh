#!/bin/bash
# usage: tools/sweep.sh "<seeds>" "<props>"  -- runs quick checks for several seeds, prints non-quiet results
for s in $1; do for p in $2; do
  VERIF_SEED=$s ./check $p --tier quick > /tmp/sweep.$$.out 2>&1; rc=$?
  n=$(grep -c '^VIOLATION\|^INCONCLUSIVE\|^NONCONF' /tmp/sweep.$$.out)
  echo "seed=$s $p rc=$rc alarms=$n"
  grep '^VIOLATION\|^INCONCLUSIVE\|^NONCONF\|^  clause' /tmp/sweep.$$.out | cut -c1-420
done; done
rm -f /tmp/sweep.$$.out
