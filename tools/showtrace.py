#!/usr/bin/env python3
import json,sys
f,a,b=sys.argv[1],int(sys.argv[2]),int(sys.argv[3])
skip=set(sys.argv[4].split(',')) if len(sys.argv)>4 else {'snapshot','srv.headers','srv.initial_headers','srv.flush','srv.drain','cli.ret','sock.flush','sock.drain'}
evs=[json.loads(l) for l in open(f)]
for i in range(a-1,min(b,len(evs))):
    e=evs[i]
    if e['e'] in skip: continue
    d={k:v for k,v in e.items() if k in ('e','t','p','pk','reason','kind','status','rid','cid','class','point','id','discard','rs','what','sid','tr','upg','to','text','code')}
    if 'sid' in d: d['sid']=d['sid'][:4]
    if 'id' in d and isinstance(d['id'],str): d['id']=d['id'][:4]
    if 'pk' in d:
        pk=d['pk'] if isinstance(d['pk'],list) else [d['pk']]
        d['pk']=[(p['ty'],p['id']) if p['ty']=='message' else (p['ty'],p.get('d','')) for p in pk]
    if 'p' in d: d['p']=(d['p']['ty'],d['p']['id'])
    print(i+1,d)
