#!/bin/bash
# usage: tools/reconfirm.sh [-j N] [ids...]  -- re-confirms seeded changes against the CURRENT /repo HEAD in scratch worktrees:
# the demo passes without the change, the change applies and builds, the pinned suite passes with it, the demo fails with it.
J=6
while getopts j: o; do case $o in j) J=$OPTARG;; esac; done; shift $((OPTIND-1))
cd /verif
ids=${@:-$(ls seeded | grep -v RESULTS)}
one() {
  id=$1; d=/tmp/rc/$id
  jq -e '.obsolete' /verif/seeded/$id/meta.json >/dev/null 2>&1 && { echo "$id obsolete"; return; }
  export GOFLAGS=-mod=mod GOPROXY=off GOSUMDB=off GOTOOLCHAIN=local
  rm -rf $d; mkdir -p $d; git -C /repo worktree add -q --detach $d/wt HEAD 2>/dev/null || { echo "$id WORKTREE-FAIL"; return; }
  place=$(jq -r '.demo.place' /verif/seeded/$id/meta.json); pkg=$(dirname $place)
  rx=$(jq -r '.demo.run' /verif/seeded/$id/meta.json | grep -o "'[^']*'" | head -1 | tr -d "'")
  cd $d/wt
  cp /verif/seeded/$id/demo_test.go $place
  timeout 300 go1.26 test -vet=off -count=1 -run "$rx" ./$pkg/ > $d/1.out 2>&1; r1=$?
  rm $place
  git apply /verif/seeded/$id/patch.diff 2>/dev/null; ra=$?
  go1.26 build ./... > $d/b.out 2>&1; rb=$?
  go1.26 test -vet=off -count=1 ./... > $d/2.out 2>&1; r2=$?
  cp /verif/seeded/$id/demo_test.go $place
  timeout 300 go1.26 test -vet=off -count=1 -run "$rx" ./$pkg/ > $d/3.out 2>&1; r3=$?
  cd /; git -C /repo worktree remove --force $d/wt
  st=OK; { [ $r1 != 0 ] || [ $ra != 0 ] || [ $rb != 0 ] || [ $r2 != 0 ] || [ $r3 = 0 ]; } && st=BROKEN
  echo "$id $st demo_pristine=$r1 apply=$ra build=$rb suite=$r2 demo_mutant=$r3"
  [ $st = OK ] && rm -rf $d
}
export -f one
mkdir -p /tmp/rc
printf '%s\n' $ids | xargs -P $J -I{} bash -c "one {}"
git -C /repo worktree prune
